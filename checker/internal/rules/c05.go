package rules

import (
	"go/constant"
	"go/token"
	"go/types"
	"sort"
	"strings"

	"golang.org/x/tools/go/ssa"

	"bdcheck/internal/ir"
)

func init() {
	register(&Prop{ID: "C05", Run: runC05,
		Technique: "static analysis: dominance guards + must-pass-through on go/ssa, enum typestate on the node status, constant/value-flow of signals and contexts, sibling agreement of process executors",
		Decided: []string{
			"the scheduler's cancel flag is only ever raised: every write outside the creating literal stores a non-zero constant (C05.cancel-flag-monotone, also run by C04)",
			"a step's signalOnStop is stored only when the resolver the stop path uses (unix.SignalNum) accepts that very text (C05.signal-name-valid, shared with C13.validity)",
			"no launch and no (re-)execution after cancel: launch and the worker's exec call are dominated per iteration by !isCanceled() (C05.no-launch-after-cancel)",
			"Signal sets the canceled flag before fanning out, visits every node, and skips only repeating steps (C05.signal-fanout)",
			"Node.signal forwards the signal only under status==running ∧ cmd!=nil and uses signalOnStop only under allowOverride ∧ configured (C05.signal-table)",
			"typestate: the guard of Kill must stay satisfiable for the re-sent / escalated signal (C05.escalation) — violated today, known finding F12",
			"Agent.signal escalates with the constant SIGKILL, allowOverride=false, on a timer derived from MaxCleanUpTime; /stop uses (SIGTERM, true); OS signals (sig,false); the first fan-out is sent under no condition on the run's state, so a stop arriving between two steps still sets the cancel flag (C05.agent-escalation)",
			"the Kill of every process executor (executor holding an *exec.Cmd) returns nil only after the signal was sent, to the group -cmd.Process.Pid, helpers followed (C05.kill-delivers); those executors are created with Setpgid:true (C05.pgroup)",
			"the context handed to exec derives from context.WithTimeout(ctx, sc.timeout) under timeout>0 and process executors use exec.CommandContext on it (C05.timeout-ctx)",
			"a running node is marked canceled by the stop whether or not its process exists (C05.cancel-mark); nobody replaces exec.Cmd.Cancel without a positive WaitDelay (C05.timeout-ctx)",
			"cancel and exit handlers are selected (C04.handler-table shared)",
			"where the command package subscribes to OS signals, the value it hands to the listener's Signal comes from a receive on that subscription (not a constant): the run is stopped with the signal the process received (C05.os-signal-forwarded)",
		},
		NotDec: []string{
			"termination within the bound (liveness, wall clock); the instant-of-arrival quantifier",
			"os/exec's kill-on-context semantics; a signal arriving between executor creation and process start",
			"the label of a timed-out run (pinned test TestSchedulerTimeout asserts failed; no rule demands canceled)",
		},
	})
}

func runC05(e *Env) {
	r := e.R
	r.Rule("C05.anchors", "anchor resolution", "launch site, scheduling loop, worker", 0)
	s := e.resolveSched()
	if !s.ok {
		return
	}
	c05NoLaunchAfterCancel(e, s)
	c05SignalFanout(e, s)
	c05SignalTable(e, s)
	c05CancelMark(e, s, "C05.cancel-mark")
	c05AgentEscalation(e, s)
	c05Pgroup(e, s)
	c05TimeoutCtx(e, s)
	c04Handlers(e, s)
	// the stop path resolves the step's signalOnStop with unix.SignalNum: a name the
	// loader accepted but that resolver maps to 0 is "delivered" as signal 0 - not at all
	c05CancelFlagMonotone(e, "C05.cancel-flag-monotone")
	c05OSSignalForwarded(e, "C05.os-signal-forwarded")
	r.Rule("C05.signal-name-valid", "DCS", "a step's signalOnStop is stored only when the stop path's resolver accepts that very text", 1)
	if cSignalNameValid(e, func(*ssa.Function) bool { return true }) == 0 {
		r.Unknown("stores of Step.SignalOnStop", "-", "no computed store of Step.SignalOnStop found (loader not recognised)")
	}
}

// isCanceledCall: a call of the predicate that reads the scheduler's cancel
// flag (by what it reads; the name is a fallback for bodies that are not loaded).
func isCanceledCall(v ssa.Value) bool {
	c, ok := ir.Resolve(v).(*ssa.Call)
	if !ok {
		return false
	}
	f := c.Call.StaticCallee()
	if f == nil {
		return false
	}
	if f.Blocks != nil && f.Signature.Results().Len() == 1 && f.Signature.Results().At(0).Type().String() == "bool" {
		for _, b := range f.Blocks {
			for _, in := range b.Instrs {
				if fa, ok := in.(*ssa.FieldAddr); ok && ir.FieldNameOf(fa.X.Type(), fa.Field) == canceledField && isSchedOwner(fa.X.Type()) {
					// reads, does not write
					writes := false
					for _, ref := range *fa.Referrers() {
						if st, isS := ref.(*ssa.Store); isS && st.Addr == ssa.Value(fa) {
							writes = true
						}
						if cc, isC := ref.(ssa.CallInstruction); isC && strings.Contains(ir.CalleeName(cc.Common()), "Store") {
							writes = true
						}
					}
					if !writes {
						return true
					}
				}
			}
		}
	}
	return strings.HasSuffix(ir.CalleeName(&c.Call), ".Scheduler).isCanceled")
}

func c05NoLaunchAfterCancel(e *Env, s *Sched) {
	r := e.R
	r.Rule("C05.no-launch-after-cancel", "DCS", "launch and exec dominated per iteration by !isCanceled()", 2)
	// launch: among its dominating conditions (call-site context included) there is a
	// !isCanceled() that is evaluated inside the pass over the nodes - in the node loop
	// itself or in a helper between the loop and the go statement
	okLaunch := false
	for _, n := range e.DCS(s.Launch) {
		if n.Kind != "val" || n.Pol || !isCanceledCall(n.V) || n.Src.If == nil {
			continue
		}
		ib := n.Src.If.Block()
		switch {
		case s.GateLoop != nil && ib.Parent() == s.GateFn && s.GateLoop.Blocks[ib]:
			okLaunch = true
		case ib.Parent() != s.GateFn && s.inLoop(ib.Parent()):
			// in a helper of the pass (below the node loop)
			for cur := ssa.Instruction(s.Launch); cur != nil && cur.Parent() != s.GateFn; {
				if cur.Parent() == ib.Parent() {
					okLaunch = true
				}
				us := ir.UniqueSite(cur.Parent())
				if us == nil {
					break
				}
				cur = us
			}
		}
	}
	r.Check(okLaunch, "loop: go→worker under !isCanceled() tested in the same pass over the nodes", e.InstrPos(s.Launch),
		"a step can be launched after the stop request was accepted (cancel flag not re-tested for each node before launch)", e.FactsStr("dominating conditions: ", e.DCS(s.Launch)))
	// worker: every call that executes the step is, in its own function, inside a loop
	// iteration guarded by !isCanceled(), or not in a loop and guarded by it
	inLoopLit := func(site ssa.Instruction) bool {
		fn := site.Parent()
		loops := ir.Loops(fn)
		inner := ir.InnermostLoop(loops, site.Block())
		ff := e.Facts(fn)
		for _, l := range ff.Expand(ff.DCS(site.Block())) {
			n := ir.Normalize(l)
			if n.Kind == "val" && !n.Pol && isCanceledCall(n.V) {
				if c, ok := n.V.(*ssa.Call); ok && inner != nil && inner.Blocks[c.Block()] {
					return true
				}
			}
		}
		return false
	}
	n := 0
	for _, wf := range sortedFns(s.WorkerFns) {
		for _, ci := range ir.CallsIn(wf, func(c *ssa.CallCommon) bool {
			return c.StaticCallee() != nil && !s.inWorker(c.StaticCallee()) && e.ReachesRepo(c.StaticCallee(), func(x *ssa.Function) bool { return x == s.Execute })
		}) {
			n++
			okL := false
			for cur := ssa.Instruction(ci); cur != nil; {
				if inLoopLit(cur) {
					okL = true
					break
				}
				if cur.Parent() == s.Worker || !s.inWorker(cur.Parent()) {
					break
				}
				us := ir.UniqueSite(cur.Parent())
				if us == nil {
					break
				}
				cur = us
			}
			r.Check(okL, "worker: exec under !isCanceled() tested in each iteration of the exec loop", e.InstrPos(ci),
				"the worker can (re-)execute the step's command after the stop request was accepted: a repeating step runs one more iteration, a step whose launch raced the stop starts anyway and is never signalled", e.FactsStr("dominating conditions: ", e.DCS(ci)))
		}
	}
	if n == 0 {
		r.Unknown("worker: exec call", e.Pos(s.Worker.Pos()), "no call reaching Execute in the worker")
	}
}

func c05SignalFanout(e *Env, s *Sched) {
	r := e.R
	r.Rule("C05.signal-fanout", "MPT+DCS", "Signal: cancel flag first, every node, skip only repeating steps", 3)
	fn := e.Fn(schedRel, "(*Scheduler).Signal")
	sig := e.Fn(schedRel, "(*Node).signal")
	if fn == nil || sig == nil {
		return
	}
	isSignalCall := func(in ssa.Instruction) bool {
		c, ok := in.(*ssa.Call)
		return ok && c.Call.StaticCallee() == sig
	}
	setsCanceled := func(in ssa.Instruction) bool {
		for _, ev := range e.C.FieldStores(fn, e.schedFields().Canceled) {
			if ev.Site == in {
				if k, ok := ir.ConstInt(ev.Val); ok && k == 1 {
					return true
				}
				if bv, ok := ir.ConstBool(ev.Val); ok && bv {
					return true
				}
			}
		}
		return false
	}
	bad, _ := ir.Bypass(nil, fn.Blocks[0], ir.PathQuery{
		Stop: setsCanceled,
		SkipEdge: func(from *ssa.BasicBlock, idx int) bool {
			i, ok := from.Instrs[len(from.Instrs)-1].(*ssa.If)
			if !ok {
				return false
			}
			n := ir.Normalize(ir.Lit{Cond: i.Cond, Pol: idx == 0})
			return n.Kind == "val" && n.Pol && isCanceledCall(n.V) // already canceled
		},
		Bad: func(in ssa.Instruction) bool { return isSignalCall(in) || ir.IsReturn(in) },
	})
	r.Check(bad == nil, "Signal: canceled flag set before any node is signalled", e.Pos(fn.Pos()),
		"a stop request can pass through Signal without the canceled flag being set first (flag set after the fan-out, or only under a further condition): the scheduling loop launches more steps and the run is not reported canceled")
	// the fan-out loop
	loops := ir.Loops(fn)
	var fl *ir.Loop
	for _, l := range loops {
		for b := range l.Blocks {
			for _, in := range b.Instrs {
				if isSignalCall(in) {
					fl = l
				}
			}
		}
	}
	if fl == nil {
		r.Bad("Signal: loop over the nodes calling node.signal", e.Pos(fn.Pos()), "Signal no longer signals the nodes in a loop")
		return
	}
	okRange := false
	if fl.Ranged != nil {
		if p, ok := e.C.PathOf(fl.Ranged); ok && p.Suffix("nodes") {
			okRange = true
		}
	}
	// exits only from the header
	onlyHeaderExit := true
	for b := range fl.Blocks {
		for _, sx := range b.Succs {
			if !fl.Blocks[sx] && b != fl.Header {
				onlyHeaderExit = false
			}
		}
	}
	r.Check(okRange && onlyHeaderExit, "Signal: fan-out ranges over all graph nodes and ends only by exhaustion", e.InstrPos(fl.Header.Instrs[0]),
		"the fan-out loop does not cover every node of the graph (break / early return / other collection)")
	var body *ssa.BasicBlock
	for _, sb := range fl.Header.Succs {
		if fl.Blocks[sb] {
			body = sb
		}
	}
	bad2, _ := ir.Bypass(nil, body, ir.PathQuery{
		Stop: func(in ssa.Instruction) bool {
			c, ok := in.(*ssa.Call)
			if !ok || c.Call.StaticCallee() != sig {
				return false
			}
			return sameNode(c.Call.Args[0], fl.Elem)
		},
		SkipEdge: func(from *ssa.BasicBlock, idx int) bool {
			i, ok := from.Instrs[len(from.Instrs)-1].(*ssa.If)
			if !ok {
				return false
			}
			n := ir.Normalize(ir.Lit{Cond: i.Cond, Pol: idx == 0})
			return n.Kind == "val" && n.Pol && e.IsFieldRead(n.V, nil, "RepeatPolicy.Repeat")
		},
		Bad: func(in ssa.Instruction) bool { return in.Block() == fl.Header && in == fl.Header.Instrs[0] },
	})
	r.Check(bad2 == nil, "Signal: every non-repeating node gets node.signal", e.InstrPos(body.Instrs[0]),
		"a node other than a repeating step can be skipped by the fan-out (it would keep running after the stop)")
}

func c05SignalTable(e *Env, s *Sched) {
	r := e.R
	r.Rule("C05.signal-table", "DCS+VF", "Node.signal: Kill under running∧cmd!=nil; signalOnStop only under allowOverride∧set", 2)
	fn := e.Fn(schedRel, "(*Node).signal")
	if fn == nil {
		return
	}
	recv := fn.Params[0]
	var sigParam, allowParam ssa.Value
	for _, p := range fn.Params[1:] {
		if p.Type().String() == "bool" {
			allowParam = p
		} else {
			sigParam = p
		}
	}
	var kills []*ssa.Call
	for _, ci := range ir.CallsIn(fn, func(c *ssa.CallCommon) bool { return c.IsInvoke() && c.Method.Name() == "Kill" }) {
		if c, ok := ci.(*ssa.Call); ok {
			kills = append(kills, c)
		}
	}
	if len(kills) == 0 {
		r.Bad("Node.signal: forwards the signal with cmd.Kill", e.Pos(fn.Pos()), "Node.signal no longer calls the executor's Kill")
		return
	}
	running := s.val("NodeStatusRunning")
	for _, k := range kills {
		lits := e.DCS(k)
		okRun := HasCmp(lits, s.isStatusOf(recv), token.EQL, running)
		// the executor the signal is forwarded to (the receiver of Kill) was tested non-nil
		kp, kok := e.C.PathOf(k.Call.Value)
		okCmd := HasNilCmp(lits, func(v ssa.Value) bool {
			if SameValue(v, k.Call.Value) {
				return true
			}
			vp, vok := e.C.PathOf(v)
			return kok && vok && vp.Dotted() == kp.Dotted() && SameValue(vp.Root, kp.Root)
		}, true)
		r.Check(okRun && okCmd, "Node.signal: Kill under status==Running ∧ cmd!=nil", e.InstrPos(k),
			"the signal is forwarded without checking that the step is running and has an executor", e.FactsStr("dominating conditions: ", lits))
		// the signal argument
		arg := k.Call.Args[0]
		okSig := true
		why := ""
		var retLits []ir.NLit
		var visit func(v ssa.Value, blk *ssa.BasicBlock, edge int, depth int)
		visit = func(v ssa.Value, blk *ssa.BasicBlock, edge int, depth int) {
			v = ir.Resolve(v)
			switch x := v.(type) {
			case *ssa.Phi:
				if depth < 4 {
					for i, ed := range x.Edges {
						visit(ed, x.Block(), i, depth+1)
					}
					return
				}
			case *ssa.MakeInterface:
				visit(x.X, blk, edge, depth)
				return
			case *ssa.ChangeInterface:
				visit(x.X, blk, edge, depth)
				return
			case *ssa.Call:
				// the choice extracted into a helper of this function: its return values, each under its own conditions
				if h := x.Call.StaticCallee(); h != nil && e.P.Funcs[h] && ir.UniqueSite(h) != nil && depth < 4 {
					for _, hb := range h.Blocks {
						for _, in := range hb.Instrs {
							if rt, isR := in.(*ssa.Return); isR && len(rt.Results) == 1 && e.Facts(h).Reachable(hb) {
								for _, rv := range RetVals(rt, 0) {
									if ph, isPhi := ir.Resolve(rv).(*ssa.Phi); isPhi {
										visit(ph, nil, 0, depth+1)
									} else {
										retLits = e.DCS(rt)
										visit(rv, nil, -1, depth+1)
										retLits = nil
									}
								}
							}
						}
					}
					return
				}
				if ir.IsCallTo(&x.Call, "golang.org/x/sys/unix.SignalNum") {
					if !e.IsFieldRead(x.Call.Args[0], recv, "Step.SignalOnStop") {
						okSig, why = false, "the override signal is not taken from the step's signalOnStop"
						return
					}
					var el []ir.NLit
					switch {
					case blk != nil:
						el = e.DCSPhiEdge(blk, edge)
					case retLits != nil:
						el = retLits
					default:
						el = e.DCS(x)
					}
					okA := HasVal(el, func(y ssa.Value) bool { return SameValue(y, allowParam) }, true)
					okS := false
					for _, l := range el {
						if l.Kind == "cmp" && l.Op == token.NEQ && e.IsFieldRead(l.X, recv, "Step.SignalOnStop") {
							if str, ok := ir.ConstString(l.Y); ok && str == "" {
								okS = true
							}
						}
					}
					if !okA || !okS {
						okSig, why = false, "signalOnStop replaces the requested signal without allowOverride being true and signalOnStop being configured (the SIGKILL escalation could be downgraded)"
					}
					return
				}
			}
			if SameValue(v, sigParam) {
				return
			}
			okSig, why = false, "the signal forwarded is neither the requested one nor the step's signalOnStop: "+e.C.Render(v)
		}
		visit(arg, nil, 0, 0)
		r.Check(okSig, "Node.signal: forwarded signal = signalOnStop only under allowOverride∧configured, else the requested one", e.InstrPos(k), why)
	}

	r.Rule("C05.escalation", "ENUM typestate", "Kill's status guard must survive the function's own status update", 1)
	for _, k := range kills {
		lits := e.DCS(k)
		guard := ir.Restrict(lits, s.isStatusOf(recv), s.NS)
		// the function's own status stores under the same guard
		ok := true
		var facts []string
		for _, ev := range s.statusEvents(fn) {
			c, isC := s.constOf(ev)
			if !isC || !sameNode(ev.Root, recv) {
				continue
			}
			under := ir.Restrict(e.DCS(ev.Site), s.isStatusOf(recv), s.NS)
			// does the store apply in (a subset of) the states where Kill is sent?
			overlap := false
			for v := range under {
				if guard[v] {
					overlap = true
				}
			}
			if overlap && !guard[c] {
				// after the first signal the node is in state c, where Kill is not sent;
				// is there any writer that brings a node from c back into the guard?
				back := false
				for _, f := range e.RepoFuncsSorted() {
					if rootFn(f).Package() != e.P.Pkg(schedRel) || isAccessor(f) {
						continue
					}
					for _, ev2 := range s.statusEvents(f) {
						c2, ok2 := s.constOf(ev2)
						if !ok2 || !guard[c2] || ev2.Init {
							continue
						}
						from := ir.Restrict(e.DCS(ev2.Site), s.isStatusOf(ev2.Root), s.NS)
						if from[c] && len(from) < len(s.NS) {
							back = true
						}
					}
				}
				if !back {
					ok = false
					facts = append(facts, sprintf("%s: first call stores %s under {%s}; Kill needs {%s}; no writer takes a %s node back",
						e.InstrPos(ev.Site), s.name(c), strings.Join(under.Names(s.NS), ","), strings.Join(guard.Names(s.NS), ","), s.name(c)))
				}
			}
		}
		r.Check(ok, "Node.signal: Kill guard stays satisfiable after the first signal", e.InstrPos(k),
			"after the first signal the node is no longer in a state in which Kill is sent, so the 5 s re-send and the SIGKILL escalation after MaxCleanUpTime never reach a process that ignored the first signal", facts...)
	}
}

func c05AgentEscalation(e *Env, s *Sched) {
	r := e.R
	r.Rule("C05.agent-escalation", "VF", "escalation: SIGKILL, no override, timer from MaxCleanUpTime; /stop=(SIGTERM,true); first send unconditional", 5)
	schedSignal := e.Fn(schedRel, "(*Scheduler).Signal")
	if schedSignal == nil {
		return
	}
	// by role: the agent's escalation routine is the function of the agent package
	// that waits in a select (the only one that does so around Scheduler.Signal)
	var fn *ssa.Function
	ar := e.agentRoles()
	for _, f := range e.RepoFuncsSorted() {
		if !ar.inPkg(f) || f.Parent() != nil {
			continue
		}
		hasSel := false
		for _, b := range f.Blocks {
			for _, in := range b.Instrs {
				if _, ok := in.(*ssa.Select); ok {
					hasSel = true
				}
			}
		}
		if hasSel && len(ar.Does(&ssa.CallCommon{Value: f}, []string{"scheduler.Scheduler).Signal"})) > 0 {
			if fn != nil {
				r.Unknown("the agent's escalation routine", agentRel, "two functions of the agent package select around Scheduler.Signal")
				return
			}
			fn = f
		}
	}
	if fn == nil {
		r.Unknown("the agent's escalation routine", agentRel, "no function of the agent package waits in a select and signals the scheduler")
		return
	}
	// the requested signal and the override flag: two parameters, or two fields of one
	// small struct parameter (`signalRequest{sig, stepOverride}`)
	var sigParam, overrideParam ssa.Value
	var reqParam *ssa.Parameter
	sigField, ovField := -1, -1
	for _, p := range fn.Params {
		switch {
		case ir.NamedType(p.Type()) == "os.Signal":
			sigParam = p
		case p.Type().String() == "bool":
			overrideParam = p
		}
	}
	if sigParam == nil || overrideParam == nil {
		for _, p := range fn.Params {
			st, isS := derefT(p.Type()).Underlying().(*types.Struct)
			if !isS {
				continue
			}
			sf, of := -1, -1
			for k := 0; k < st.NumFields(); k++ {
				switch {
				case ir.NamedType(st.Field(k).Type()) == "os.Signal":
					sf = k
				case st.Field(k).Type().String() == "bool":
					of = k
				}
			}
			if sf >= 0 && of >= 0 {
				reqParam, sigField, ovField = p, sf, of
			}
		}
	}
	if (sigParam == nil || overrideParam == nil) && reqParam == nil {
		r.Unknown("the agent's escalation routine: (signal, allowOverride) parameters", e.Pos(fn.Pos()), "not found")
		return
	}
	fieldOfReq := func(v ssa.Value, fi int) bool {
		if reqParam == nil {
			return false
		}
		v = ir.Resolve(v)
		switch x := v.(type) {
		case *ssa.Field:
			return x.Field == fi && ir.Resolve(x.X) == ssa.Value(reqParam)
		case *ssa.UnOp:
			if fa, ok := x.X.(*ssa.FieldAddr); ok && fa.Field == fi {
				b := ir.Resolve(fa.X)
				if b == ssa.Value(reqParam) {
					return true
				}
				// the parameter spilled into a local
				if al, isA := fa.X.(*ssa.Alloc); isA {
					for _, sv := range ir.StoresTo(al) {
						if ir.Resolve(sv) == ssa.Value(reqParam) {
							return true
						}
					}
				}
			}
		}
		return false
	}
	isSigV := func(v ssa.Value) bool {
		return (sigParam != nil && SameValue(v, sigParam)) || fieldOfReq(ir.Deep(v), sigField) || fieldOfReq(v, sigField)
	}
	isOvV := func(v ssa.Value) bool {
		return (overrideParam != nil && SameValue(v, overrideParam)) || fieldOfReq(ir.Deep(v), ovField) || fieldOfReq(v, ovField)
	}
	// select and its timer case
	var sel *ssa.Select
	for _, b := range fn.Blocks {
		for _, in := range b.Instrs {
			if sx, ok := in.(*ssa.Select); ok {
				sel = sx
			}
		}
	}
	timeoutCase := -1
	if sel != nil {
		for i, st := range sel.States {
			p, ok := e.C.PathOf(st.Chan)
			if !ok || p.Dotted() != "C" {
				continue
			}
			if c, ok := ir.Resolve(p.Root).(*ssa.Call); ok && ir.IsCallTo(&c.Call, "time.NewTimer") {
				if e.IsFieldRead(c.Call.Args[0], nil, "dag.MaxCleanUpTime") {
					timeoutCase = i
				}
			}
		}
	}
	if timeoutCase < 0 {
		r.Bad("Agent.signal: select case on a timer created from dag.MaxCleanUpTime", e.Pos(fn.Pos()),
			"the escalation timer is not derived from the DAG's MaxCleanUpTime")
		return
	}
	r.OK("Agent.signal: select case on a timer created from dag.MaxCleanUpTime", e.InstrPos(sel), "")
	isSelIdx := func(v ssa.Value) bool {
		ex, ok := ir.Resolve(v).(*ssa.Extract)
		return ok && ex.Tuple == ssa.Value(sel) && ex.Index == 0
	}
	nKill := 0
	// Agent.signal, the helpers it is made of (virtual inlining view) and their closures
	var parts []*ssa.Function
	seenPart := map[*ssa.Function]bool{}
	goPart := map[*ssa.Function]bool{}
	withGo := e.inlinedWithGo(fn)
	for _, g := range sortedFns(boolSet(withGo)) {
		for _, h := range ir.WithClosures(g) {
			if !seenPart[h] {
				seenPart[h] = true
				parts = append(parts, h)
				goPart[h] = withGo[g]
			}
		}
	}
	inGoClosure := func(f *ssa.Function) bool {
		if goPart[f] {
			return true
		}
		for g := f; g != nil && g.Parent() != nil; g = g.Parent() {
			for _, b := range g.Parent().Blocks {
				for _, in := range b.Instrs {
					if gi, ok := in.(*ssa.Go); ok && gi.Call.StaticCallee() == g {
						return true
					}
				}
			}
		}
		return false
	}
	// the sends: calls of Scheduler.Signal in the routine, and calls of a helper of the
	// package that only forwards to it (`a.resendSignal(sig)`), its parameters replaced
	// by the call's arguments
	type send struct {
		ci   ssa.CallInstruction
		args []ssa.Value // sc, g, sig, done, allowOverride
		// fromReq[k] >= 0: argument k is that field of the routine's own request
		// struct, handed to a forwarder whole (`go a.deliver(order, done)`)
		fromReq [5]int
	}
	var sends []send
	isPart := map[*ssa.Function]bool{}
	for _, f := range parts {
		isPart[f] = true
	}
	// a forwarder: a one-block function of the package calling Scheduler.Signal; when
	// the routine calls it (plainly or with `go`) each call is a send of its own and
	// the forwarder's body is not judged by itself
	isForwarder := func(h *ssa.Function) bool {
		if h == nil || h == fn || !e.P.Funcs[h] || !ar.inPkg(h) || len(h.Blocks) != 1 || h.Parent() != nil {
			return false
		}
		return len(ir.CallsIn(h, func(c *ssa.CallCommon) bool { return c.StaticCallee() == schedSignal })) > 0
	}
	for _, f := range parts {
		if isForwarder(f) {
			continue
		}
		for _, ci := range ir.CallsIn(f, func(c *ssa.CallCommon) bool { return c.StaticCallee() != nil }) {
			h := ci.Common().StaticCallee()
			if h == schedSignal {
				if len(ci.Common().Args) == 5 {
					sends = append(sends, send{ci, ci.Common().Args, [5]int{-1, -1, -1, -1, -1}})
				}
				continue
			}
			if !isForwarder(h) {
				continue
			}
			for _, inner := range ir.CallsIn(h, func(c *ssa.CallCommon) bool { return c.StaticCallee() == schedSignal }) {
				ia := inner.Common().Args
				if len(ia) != 5 {
					continue
				}
				sub := make([]ssa.Value, 5)
				fromReq := [5]int{-1, -1, -1, -1, -1}
				for k, a := range ia {
					sub[k] = a
					for pi, hp := range h.Params {
						if pi >= len(ci.Common().Args) {
							continue
						}
						if ir.Resolve(a) == ssa.Value(hp) {
							sub[k] = ci.Common().Args[pi]
							continue
						}
						// a field of a struct parameter of the forwarder (`order.sig`)
						fi, isFld := fieldOfParam(a, hp)
						if !isFld {
							continue
						}
						arg := ci.Common().Args[pi]
						st, isSt := derefT(hp.Type()).Underlying().(*types.Struct)
						if !isSt {
							continue
						}
						if reqParam != nil && (ir.Resolve(arg) == ssa.Value(reqParam) || ir.Deep(arg) == ssa.Value(reqParam)) {
							fromReq[k] = fi
							continue
						}
						if fv := e.structFieldsOf(arg, st); fv != nil && fi < len(fv) {
							sub[k] = fv[fi]
						}
					}
				}
				sends = append(sends, send{ci, sub, fromReq})
			}
		}
	}
	for _, sd := range sends {
		{
			ci, args, f := sd.ci, sd.args, sd.ci.Parent()
			lits := e.DCS(ci)
			async := inGoClosure(f)
			if _, isGo := ci.(*ssa.Go); isGo {
				async = true
			}
			inTimeout := !async && HasCmp(lits, isSelIdx, token.EQL, int64(timeoutCase))
			sigConst := signalConst(args[2])
			allow, allowIsConst := ir.ConstBool(args[4])
			if inTimeout {
				nKill++
				r.Check(sigConst == 9 && allowIsConst && !allow, "Agent.signal: timeout case sends SIGKILL with allowOverride=false", e.InstrPos(ci),
					sprintf("after MaxCleanUpTime the agent does not force-kill: signal const=%d allowOverride=%s", sigConst, e.C.Render(args[4])))
			} else if !async {
				// re-send: same signal, no override
				r.Check((isSigV(args[2]) || (sigField >= 0 && sd.fromReq[2] == sigField)) && allowIsConst && !allow, "Agent.signal: periodic re-send of the requested signal without override", e.InstrPos(ci),
					"the periodic re-send does not forward the requested signal (or allows override)")
			} else {
				// first send in the goroutine: requested signal and allowOverride parameter
				r.Check((isSigV(args[2]) || (sigField >= 0 && sd.fromReq[2] == sigField)) && (isOvV(args[4]) || (ovField >= 0 && sd.fromReq[4] == ovField)) && !ir.IsNilConst(ir.Deep(args[3])), "Agent.signal: first send forwards (sig, allowOverride) and waits via done", e.InstrPos(ci),
					"the first fan-out does not forward the requested signal / override flag or does not wait for the graph to stop")
				// and it is sent whatever the run looks like at that instant: from the routine's
				// entry to the send no condition other than a nil test. "No step is running"
				// is also what a run looks like between two steps; a stop swallowed then never
				// sets the cancel flag and the remaining steps are started.
				var conds []ir.NLit
				reached := false
				var cur ssa.Instruction = ci
				for d := 0; d < 6; d++ {
					conds = append(conds, e.DCSBlock(cur.Block())...)
					if cur.Parent() == fn {
						reached = true
						break
					}
					if us := ir.UniqueSite(cur.Parent()); us != nil {
						cur = us
						continue
					}
					// a closure: the place it is created at
					var mk ssa.Instruction
					nmk := 0
					if par := cur.Parent().Parent(); par != nil {
						for _, b := range par.Blocks {
							for _, in := range b.Instrs {
								if mc, ok := in.(*ssa.MakeClosure); ok && mc.Fn == ssa.Value(cur.Parent()) {
									mk = in
									nmk++
								}
							}
						}
					}
					if nmk != 1 {
						break
					}
					cur = mk
				}
				if !reached {
					r.Unknown("Agent.signal: the first send is unconditional", e.InstrPos(ci), "the send is not connected to the routine through single call sites")
				} else {
					var other []ir.NLit
					for _, l := range conds {
						if l.Kind == "cmp" && (l.Op == token.NEQ || l.Op == token.EQL) && (ir.IsNilConst(l.Y) || ir.IsNilConst(l.X)) {
							continue
						}
						other = append(other, l)
					}
					r.Check(len(other) == 0, "Agent.signal: the first send is unconditional", e.InstrPos(ci),
						"a stop request / OS signal is forwarded to the scheduler only when the run is in some observed state: a stop arriving in the other states is acknowledged but never sets the cancel flag, so not-yet-started steps still run and the run is not bounded by the clean-up time", e.FactsStr("conditions from the routine's entry: ", other))
				}
			}
		}
	}
	if nKill != 1 {
		r.Bad("Agent.signal: timeout case sends SIGKILL with allowOverride=false", e.Pos(fn.Pos()), sprintf("found %d Signal calls in the MaxCleanUpTime case", nKill))
	}
	// callers of Agent.signal
	httpSet := map[*ssa.Function]bool{}
	if hh := e.FnQuiet("internal/agent", "(*Agent).HandleHTTP"); hh != nil {
		for g := range e.inlinedWithGo(hh) {
			for _, h := range ir.WithClosures(g) {
				httpSet[h] = true
			}
		}
	}
	for _, ci := range e.StaticCallSites(fn) {
		args := ci.Common().Args
		host := ShortFn(rootFn(ci.Parent()))
		var sigArg, ovArg ssa.Value
		for i, p := range fn.Params {
			if sigParam != nil && ssa.Value(p) == sigParam {
				sigArg = args[i]
			}
			if overrideParam != nil && ssa.Value(p) == overrideParam {
				ovArg = args[i]
			}
			if reqParam != nil && p == reqParam {
				// the request literal built for this call: what it stores into the two fields
				// (a field the literal does not mention is the zero value)
				var al *ssa.Alloc
				switch x := ir.Resolve(args[i]).(type) {
				case *ssa.UnOp:
					al, _ = x.X.(*ssa.Alloc)
				case *ssa.Alloc:
					al = x
				}
				if al != nil {
					ovArg = ssa.NewConst(constant.MakeBool(false), types.Typ[types.Bool])
					for _, ref := range *al.Referrers() {
						if fa, ok := ref.(*ssa.FieldAddr); ok {
							for _, r2 := range *fa.Referrers() {
								if sv, ok := r2.(*ssa.Store); ok && sv.Addr == ssa.Value(fa) {
									if fa.Field == sigField {
										sigArg = sv.Val
									}
									if fa.Field == ovField {
										ovArg = sv.Val
									}
								}
							}
						}
					}
				}
			}
		}
		if sigArg == nil || ovArg == nil {
			r.Unknown(host+": the (signal, allowOverride) the escalation routine is called with", e.InstrPos(ci), "arguments not identified")
			continue
		}
		sc := signalConst(sigArg)
		allow, isC := ir.ConstBool(ovArg)
		// an HTTP handler: HandleHTTP and what it is made of, or any function that is handed
		// the response writer / the request (a route's handler method)
		isHTTP := strings.HasSuffix(host, ".HandleHTTP") || httpSet[ci.Parent()]
		for cur, d := rootFn(ci.Parent()), 0; cur != nil && d < 4; d++ {
			for _, p := range cur.Params {
				if n := ir.NamedType(p.Type()); n == "net/http.ResponseWriter" || n == "net/http.Request" {
					isHTTP = true
				}
			}
			us := ir.UniqueSite(cur) // also a go statement: `go a.handleStopRequest()`
			if us == nil {
				break
			}
			cur = rootFn(us.Parent())
		}
		switch {
		case isHTTP:
			r.Check(sc == 15 && isC && allow, "HandleHTTP /stop: signal(SIGTERM, allowOverride=true)", e.InstrPos(ci),
				"the stop request does not send SIGTERM with the step's signalOnStop override allowed")
		default:
			fwd := false
			if p, isP := ir.Resolve(sigArg).(*ssa.Parameter); isP && p.Parent() == ci.Parent() && ir.NamedType(p.Type()) == "os.Signal" {
				fwd = true
			}
			r.Check(isC && !allow && fwd, host+": OS signal forwarded as (sig, false)", e.InstrPos(ci),
				"an OS signal received by the agent is not forwarded unchanged without override")
		}
	}
}

// signalConst returns the numeric value of a constant syscall.Signal argument, or -1.
func signalConst(v ssa.Value) int64 {
	v = ir.Resolve(v)
	for i := 0; i < 4; i++ {
		switch x := v.(type) {
		case *ssa.MakeInterface:
			v = x.X
			continue
		case *ssa.ChangeInterface:
			v = x.X
			continue
		case *ssa.Convert:
			v = x.X
			continue
		}
		break
	}
	if k, ok := ir.ConstInt(v); ok {
		return k
	}
	return -1
}

func c05Pgroup(e *Env, s *Sched) {
	r := e.R
	sp := e.P.Pkg("internal/dag/executor")
	if sp == nil {
		r.Rule("C05.pgroup", "SIB/AGR", "process executors: group kill ⇒ Setpgid:true at construction", 2)
		r.Unknown("package internal/dag/executor", "-", "not found")
		return
	}
	// process executors by role: Kill methods whose receiver struct holds an *exec.Cmd
	type pexec struct {
		kill  *ssa.Function
		recvT string
	}
	var pes []pexec
	for _, f := range e.RepoFuncsSorted() {
		if f.Package() != sp || f.Name() != "Kill" || f.Signature.Recv() == nil {
			continue
		}
		st, ok := derefStruct(f.Signature.Recv().Type())
		if !ok {
			continue
		}
		hasCmd := false
		for i := 0; i < st.NumFields(); i++ {
			if pt, ok := st.Field(i).Type().(*types.Pointer); ok && ir.NamedType(pt.Elem()) == "os/exec.Cmd" {
				hasCmd = true
			}
		}
		if hasCmd {
			pes = append(pes, pexec{f, ir.NamedType(f.Signature.Recv().Type())})
		}
	}

	r.Rule("C05.kill-delivers", "MPT (interprocedural summary)+VF", "process executors: Kill signals the group -Process.Pid on every path that reports success", 2)
	for _, pe := range pes {
		f := pe.kill
		kc := &killCheck{e: e, memo: map[*ssa.Function]*killSum{}}
		sum := kc.summary(f, true, 0)
		short := strings.TrimPrefix(pe.recvT, sp.Pkg.Path()+".")
		pos := e.Pos(f.Pos())
		if sum.badRet != nil {
			pos = e.InstrPos(sum.badRet)
		}
		r.Check(sum.must, "executor "+short+": Kill reports success only after the signal was sent (cmd/Process==nil excepted)", pos,
			"Kill can return nil without having signalled the process group although the process was started: the step's processes are never stopped, while the node is already marked canceled and no later signal reaches them",
			"kill calls found: "+strings.Join(kc.sites(), ", "))
		if len(kc.kills) == 0 {
			continue
		}
		for _, k := range kc.kills {
			neg, why := kc.negPid(k.Common().Args[0], 0)
			r.Check(neg, "executor "+short+": the signal goes to the process group -cmd.Process.Pid fixed at creation ["+shortCallee(k.Common())+" in "+ShortFn(k.Parent())+"]", e.InstrPos(k),
				"the signalled id is not the negated pid of the started process ("+why+"): a positive pid reaches only the group leader (children of `sh -c` keep running and keep the step's pipes open); a group looked up at signal time fails once the leader has exited and been reaped although group members are alive")
		}
	}

	r.Rule("C05.pgroup", "SIB/AGR", "process executors: group kill ⇒ Setpgid:true at construction", 2)
	for _, pe := range pes {
		// constructors: functions in the package that allocate this type
		n := 0
		for _, g := range e.RepoFuncsSorted() {
			if g.Package() != sp {
				continue
			}
			allocs := false
			for _, b := range g.Blocks {
				for _, in := range b.Instrs {
					if al, ok := in.(*ssa.Alloc); ok && al.Heap && (ir.NamedType(al.Type()) == pe.recvT || embedsNamed(al.Type(), pe.recvT)) {
						allocs = true
					}
				}
			}
			if !allocs {
				continue
			}
			n++
			setpgid := false
			// in the constructor, or in the helper of the package that builds its command
			var where []*ssa.Function
			for _, h := range e.staticClosure(g) {
				if h.Blocks != nil && rootFn(h).Package() == sp {
					where = append(where, h)
				}
			}
			for _, h := range where {
				if h != g && len(ir.CallsIn(h, func(c *ssa.CallCommon) bool { return ir.IsCallTo(c, "os/exec.Command", "os/exec.CommandContext") })) == 0 {
					continue
				}
				for _, ev := range e.C.FieldStores(h, "Setpgid") {
					if bv, ok := ir.ConstBool(ev.Val); ok && bv {
						// the SysProcAttr must be stored into cmd.SysProcAttr
						for _, ev2 := range e.C.FieldStores(h, "SysProcAttr") {
							if ev2.Val != nil && ir.Resolve(ev2.Val) == ir.Resolve(ev.Root) {
								setpgid = true
							}
						}
					}
				}
			}
			r.Check(setpgid, ShortFn(g)+": cmd.SysProcAttr{Setpgid:true} (Kill signals the process group)", e.Pos(g.Pos()),
				"the executor kills -pid (the process group) but does not start the child in its own group: the signal goes nowhere or to the agent's own group")
		}
		if n == 0 {
			r.Unknown("constructor of "+pe.recvT, e.Pos(pe.kill.Pos()), "no constructor found")
		}
	}
}

// embedsNamed: t (or what it points to) is a struct embedding the named type, by value
// or by pointer, directly.
func embedsNamed(t types.Type, named string) bool {
	st, ok := derefStruct(t)
	if !ok {
		return false
	}
	for i := 0; i < st.NumFields(); i++ {
		f := st.Field(i)
		if !f.Embedded() {
			continue
		}
		ft := f.Type()
		if ir.NamedType(ft) == named {
			return true
		}
		if pt, isP := ft.(*types.Pointer); isP && "*"+ir.NamedType(pt.Elem()) == named {
			return true
		}
		if "*"+ir.NamedType(ft) == named {
			return true
		}
	}
	return false
}

// killSum is the per-function summary of the kill-delivers rule.
type killSum struct {
	must   bool            // every path to a possibly-nil return passes a kill
	badRet ssa.Instruction // a return reached without
}

type killCheck struct {
	e     *Env
	memo  map[*ssa.Function]*killSum
	kills []ssa.CallInstruction
}

func (kc *killCheck) sites() []string {
	var out []string
	for _, k := range kc.kills {
		out = append(out, shortCallee(k.Common())+"@"+ShortFn(k.Parent()))
	}
	sort.Strings(out)
	return out
}

func isOSKill(c *ssa.CallCommon) bool {
	return ir.IsCallTo(c, "syscall.Kill", "(*os.Process).Signal", "(*os.Process).Kill", "golang.org/x/sys/unix.Kill")
}

// summary: top=true for the Kill method itself (the nothing-to-kill tests on
// cmd / cmd.Process license an early nil return there).
func (kc *killCheck) summary(f *ssa.Function, top bool, depth int) *killSum {
	if s, ok := kc.memo[f]; ok {
		return s
	}
	s := &killSum{}
	kc.memo[f] = s // recursion: assume not-must
	if f == nil || f.Blocks == nil || depth > 4 {
		return s
	}
	e := kc.e
	stop := func(in ssa.Instruction) bool {
		ci, ok := in.(ssa.CallInstruction)
		if !ok {
			return false
		}
		if _, isDefer := in.(*ssa.Defer); isDefer {
			return false
		}
		if _, isGo := in.(*ssa.Go); isGo {
			return false
		}
		c := ci.Common()
		if isOSKill(c) {
			seen := false
			for _, k := range kc.kills {
				if k == ci {
					seen = true
				}
			}
			if !seen {
				kc.kills = append(kc.kills, ci)
			}
			return true
		}
		if sc := c.StaticCallee(); sc != nil && e.P.Funcs[sc] && sc != f {
			return kc.summary(sc, false, depth+1).must
		}
		return false
	}
	// collect kill sites even on paths the search does not need to walk
	for _, b := range f.Blocks {
		for _, in := range b.Instrs {
			stop(in)
		}
	}
	nres := f.Signature.Results().Len()
	bad, _ := ir.Bypass(nil, f.Blocks[0], ir.PathQuery{
		Stop: stop,
		SkipEdge: func(from *ssa.BasicBlock, idx int) bool {
			if !top {
				return false
			}
			i, ok := from.Instrs[len(from.Instrs)-1].(*ssa.If)
			if !ok {
				return false
			}
			n := ir.Normalize(ir.Lit{Cond: i.Cond, Pol: idx == 0})
			if n.Kind == "cmp" && n.Op == token.EQL && ir.IsNilConst(n.Y) {
				if p, ok := e.C.PathOf(n.X); ok && isProcHandle(n.X) && ir.Resolve(p.Root) == ssa.Value(f.Params[0]) {
					return true // nothing was started: nothing to signal
				}
			}
			// the same test behind a predicate of the executor (`if !e.started() { return nil }`):
			// every way the predicate has that outcome is one of the two nil tests on its receiver
			if n.Kind == "val" {
				if c, isC := ir.Resolve(n.V).(*ssa.Call); isC && c.Call.StaticCallee() != nil && e.P.Funcs[c.Call.StaticCallee()] && len(c.Call.Args) > 0 && ir.Resolve(c.Call.Args[0]) == ssa.Value(f.Params[0]) {
					h := c.Call.StaticCallee()
					if alts, okA := e.boolHelperReturns(h, n.Pol); okA && len(alts) > 0 && len(h.Params) > 0 {
						all := true
						for _, alt := range alts {
							found := false
							for _, l := range alt {
								if l.Kind == "cmp" && l.Op == token.EQL && ir.IsNilConst(l.Y) {
									if p, ok := e.C.PathOf(l.X); ok && isProcHandle(l.X) && ir.Resolve(p.Root) == ssa.Value(h.Params[0]) {
										found = true
									}
								}
							}
							if !found {
								all = false
							}
						}
						if all {
							return true
						}
					}
				}
			}
			return false
		},
		Bad: func(in ssa.Instruction) bool {
			rt, ok := in.(*ssa.Return)
			if !ok {
				return false
			}
			if nres == 0 {
				return true
			}
			last := nres - 1
			if !ir.IsErrorType(f.Signature.Results().At(last).Type()) {
				return true
			}
			// the nothing-to-kill return behind a joined test (`started := cmd != nil &&
			// cmd.Process != nil; if !started { return nil }`): every way to it holds one of
			// the two nil tests on the receiver
			if top {
				if ws := e.waysTo(rt); len(ws) > 0 {
					all := true
					for _, w := range ws {
						found := false
						for _, l := range w {
							if l.Kind == "cmp" && l.Op == token.EQL && ir.IsNilConst(l.Y) && isProcHandle(l.X) {
								if p, ok := e.C.PathOf(l.X); ok && ir.Resolve(p.Root) == ssa.Value(f.Params[0]) {
									found = true
								}
							}
						}
						all = all && found
					}
					if all {
						return false
					}
				}
			}
			for _, v := range RetVals(rt, last) {
				v = ir.Resolve(v)
				if ir.IsNilConst(v) {
					return true
				}
				if c, ok := v.(*ssa.Call); ok && ir.IsCallTo(&c.Call, "fmt.Errorf", "errors.New") {
					continue
				}
				if mi, ok := v.(*ssa.MakeInterface); ok && !ir.IsNilConst(mi.X) {
					continue
				}
				if HasNilCmp(e.DCS(rt), func(x ssa.Value) bool { return ir.Resolve(x) == v }, true) {
					continue
				}
				return true // possibly nil
			}
			return false
		},
	})
	s.must = bad == nil
	s.badRet = bad
	return s
}

// negPid: v is the negation of the started process's pid (cmd.Process.Pid),
// possibly handed down through parameters of repository helpers.
func (kc *killCheck) negPid(v ssa.Value, depth int) (bool, string) {
	e := kc.e
	v = ir.Resolve(v)
	if depth > 4 {
		return false, "too deep"
	}
	switch x := v.(type) {
	case *ssa.UnOp:
		if x.Op == token.SUB {
			return kc.isPid(x.X, depth)
		}
	case *ssa.Convert:
		return kc.negPid(x.X, depth)
	case *ssa.Parameter:
		sites := e.StaticCallSites(x.Parent())
		if len(sites) == 0 {
			return false, "parameter " + x.Name() + " of a function without static callers"
		}
		idx := paramIndex(x)
		for _, ci := range sites {
			if idx < 0 || idx >= len(ci.Common().Args) {
				return false, "call site arity"
			}
			if ok, why := kc.negPid(ci.Common().Args[idx], depth+1); !ok {
				return false, why
			}
		}
		return true, ""
	}
	if ok, _ := kc.isPid(v, depth); ok {
		return false, "the pid is not negated"
	}
	return false, "derived from " + e.C.Render(v)
}

func (kc *killCheck) isPid(v ssa.Value, depth int) (bool, string) {
	e := kc.e
	v = ir.Resolve(v)
	switch x := v.(type) {
	case *ssa.Convert:
		return kc.isPid(x.X, depth)
	case *ssa.Parameter:
		sites := e.StaticCallSites(x.Parent())
		if len(sites) == 0 || depth > 4 {
			return false, "parameter " + x.Name()
		}
		idx := paramIndex(x)
		for _, ci := range sites {
			if idx < 0 || idx >= len(ci.Common().Args) {
				return false, "call site arity"
			}
			if ok, why := kc.isPid(ci.Common().Args[idx], depth+1); !ok {
				return false, why
			}
		}
		return true, ""
	}
	if e.IsFieldRead(v, nil, "Process.Pid") {
		return true, ""
	}
	return false, "derived from " + e.C.Render(v)
}

// isProcHandle: v is the executor's command or its started process (by type: the
// field's name is the executor's business).
func isProcHandle(v ssa.Value) bool {
	pt, ok := v.Type().(*types.Pointer)
	if !ok {
		return false
	}
	n := ir.NamedType(pt.Elem())
	return n == "os/exec.Cmd" || n == "os.Process"
}

func paramIndex(p *ssa.Parameter) int {
	for i, q := range p.Parent().Params {
		if q == p {
			return i
		}
	}
	return -1
}

func c05TimeoutCtx(e *Env, s *Sched) {
	r := e.R
	r.Rule("C05.timeout-ctx", "VF", "exec context derives from WithTimeout(ctx, sc.timeout) under timeout>0; executors use CommandContext", 3)
	// in the scheduling function (or a helper of it): extract#0 of context.WithTimeout(_, sc.timeout) under timeout > 0
	var deadlineCtx *ssa.Extract
	var cell ssa.Value
	okStore := false
	for _, lf := range sortedFns(s.LoopFns) {
		for _, ci := range ir.CallsIn(lf, func(c *ssa.CallCommon) bool { return ir.IsCallTo(c, "context.WithTimeout") }) {
			c, isC := ci.(*ssa.Call)
			if !isC || !e.IsFieldRead(c.Call.Args[1], nil, e.schedFields().Timeout) {
				continue
			}
			pos := false
			for _, l := range e.DCS(c) {
				if l.Kind == "cmp" && l.Op == token.LSS && e.IsFieldRead(l.Y, nil, e.schedFields().Timeout) {
					if k, ok := ir.ConstInt(l.X); ok && k == 0 {
						pos = true
					}
				}
			}
			if !pos {
				continue
			}
			for _, ref := range *c.Referrers() {
				if ex, isE := ref.(*ssa.Extract); isE && ex.Index == 0 {
					deadlineCtx = ex
					okStore = true
					for _, r2 := range *ex.Referrers() {
						if st, isS := r2.(*ssa.Store); isS {
							cell = st.Addr
						}
					}
				}
			}
		}
	}
	r.Check(okStore, "loop: ctx = context.WithTimeout(ctx, sc.timeout) under timeout>0", e.Pos(s.Loop.Pos()),
		"the run's timeout is not turned into a context deadline")
	// the context the step is executed with derives from that deadline context: through
	// the cell it is stored in, closure bindings, parameters of the loop's / worker's
	// helpers and the go statement's arguments
	var derives func(v ssa.Value, d int) bool
	derives = func(v ssa.Value, d int) bool {
		if d > 12 || v == nil || deadlineCtx == nil {
			return false
		}
		switch x := v.(type) {
		case *ssa.Extract:
			if x == deadlineCtx {
				return true
			}
			// a result of a repository helper: what the helper returns at that position
			if c, isC := x.Tuple.(*ssa.Call); isC && c.Call.StaticCallee() != nil && e.P.Funcs[c.Call.StaticCallee()] {
				for _, b := range c.Call.StaticCallee().Blocks {
					for _, in := range b.Instrs {
						if rt, isR := in.(*ssa.Return); isR && x.Index < len(rt.Results) {
							for _, rv := range RetVals(rt, x.Index) {
								if derives(rv, d+1) {
									return true
								}
							}
						}
					}
				}
			}
			return false
		case *ssa.Phi:
			for _, ed := range x.Edges {
				if derives(ed, d+1) {
					return true
				}
			}
		case *ssa.UnOp:
			if x.Op == token.MUL {
				if cell != nil && x.X == cell {
					return true
				}
				if fv, isFV := x.X.(*ssa.FreeVar); isFV {
					return derives(fv, d+1)
				}
				// a field of a small helper object the run's values are carried in
				// (`exec := &execution{ctx: ctx, …}` … `e.ctx`): everything stored into it
				if fa, isFA := x.X.(*ssa.FieldAddr); isFA {
					if vals := e.helperObjectFields(fa.X.Type(), fa.Field); len(vals) > 0 {
						all := true
						for _, sv := range vals {
							if !derives(sv, d+1) {
								all = false
							}
						}
						if all {
							return true
						}
					}
				}
				for _, st := range ir.StoresTo(x.X) {
					if derives(st, d+1) {
						return true
					}
				}
			}
		case *ssa.FreeVar:
			fn := x.Parent()
			for i, fv := range fn.FreeVars {
				if fv != x {
					continue
				}
				for _, f := range e.RepoFuncsSorted() {
					for _, b := range f.Blocks {
						for _, in := range b.Instrs {
							if mc, isMC := in.(*ssa.MakeClosure); isMC && mc.Fn == ssa.Value(fn) && i < len(mc.Bindings) {
								if mc.Bindings[i] == cell && cell != nil {
									return true
								}
								if derives(mc.Bindings[i], d+1) {
									return true
								}
							}
						}
					}
				}
			}
		case *ssa.Parameter:
			sites := e.StaticCallSites(x.Parent())
			idx := paramIndex(x)
			for _, cs := range sites {
				if idx >= 0 && idx < len(cs.Common().Args) && derives(cs.Common().Args[idx], d+1) {
					return true
				}
			}
		case *ssa.Alloc:
			if cell != nil && x == cell {
				return true
			}
			for _, st := range ir.StoresTo(x) {
				if derives(st, d+1) {
					return true
				}
			}
		case *ssa.Call:
			// context decorators keep the deadline: context.WithValue / WithCancel(parent) and repository wrappers
			if ir.IsCallTo(&x.Call, "context.WithValue", "context.WithCancel") || (x.Call.StaticCallee() != nil && e.P.Funcs[x.Call.StaticCallee()]) {
				for _, a := range x.Call.Args {
					if strings.HasSuffix(ir.NamedType(a.Type()), "context.Context") && derives(a, d+1) {
						return true
					}
				}
			}
		}
		return false
	}
	for _, wf := range sortedFns(s.WorkerFns) {
		for _, ci := range ir.CallsIn(wf, func(c *ssa.CallCommon) bool {
			return c.StaticCallee() != nil && !s.inWorker(c.StaticCallee()) && e.ReachesRepo(c.StaticCallee(), func(x *ssa.Function) bool { return x == s.Execute })
		}) {
			ok := false
			for _, a := range ci.Common().Args {
				if strings.HasSuffix(ir.NamedType(a.Type()), "context.Context") && derives(a, 0) {
					ok = true
				}
			}
			r.Check(ok, "worker: exec receives the deadline-carrying ctx variable", e.InstrPos(ci),
				"the worker executes the step with a context that does not carry the run's deadline")
		}
	}
	// executors with a negative-pid Kill build their command with exec.CommandContext(ctx param, ...)
	sp := e.P.Pkg("internal/dag/executor")
	for _, g := range e.RepoFuncsSorted() {
		if sp == nil || g.Package() != sp {
			continue
		}
		for _, ci := range ir.CallsIn(g, func(c *ssa.CallCommon) bool { return ir.IsCallTo(c, "os/exec.Command", "os/exec.CommandContext") }) {
			isCtx := ir.IsCallTo(ci.Common(), "os/exec.CommandContext") && e.ctxFromCaller(ci.Common().Args[0], 0)
			r.Check(isCtx, ShortFn(g)+": child created with exec.CommandContext(ctx, …)", e.InstrPos(ci),
				"the child process is not bound to the step's context: a timeout / cancel would not terminate it")
		}
	}
	// what ends the child when that context is done is os/exec's own kill: nobody in the
	// repository replaces exec.Cmd.Cancel (a replacement that only asks - SIGTERM, a
	// signal to the group - is never followed by a forced kill unless WaitDelay is set)
	nCancel := 0
	for _, g := range e.RepoFuncsSorted() {
		for _, b := range g.Blocks {
			for _, in := range b.Instrs {
				st, ok := in.(*ssa.Store)
				if !ok {
					continue
				}
				fa, ok := st.Addr.(*ssa.FieldAddr)
				if !ok || ir.NamedType(fa.X.Type()) != "os/exec.Cmd" || ir.FieldNameOf(fa.X.Type(), fa.Field) != "Cancel" {
					continue
				}
				nCancel++
				// accepted only together with a positive constant WaitDelay on the same command
				okDelay := false
				for _, b2 := range g.Blocks {
					for _, in2 := range b2.Instrs {
						if s2, isS := in2.(*ssa.Store); isS {
							if f2, isF := s2.Addr.(*ssa.FieldAddr); isF && ir.Resolve(f2.X) == ir.Resolve(fa.X) && ir.FieldNameOf(f2.X.Type(), f2.Field) == "WaitDelay" {
								if k, isK := ir.ConstInt(s2.Val); isK && k > 0 {
									okDelay = true
								}
							}
						}
					}
				}
				r.Check(okDelay, ShortFn(rootFn(g))+": exec.Cmd.Cancel is replaced only together with a positive WaitDelay", e.InstrPos(st),
					"the action os/exec takes when the step's context ends (timeout, cancel) is replaced and no WaitDelay is set: os/exec then never force-kills, and a step that ignores the replacement's signal outlives the run's timeout indefinitely")
			}
		}
	}
	if nCancel == 0 {
		r.OK("process executors: os/exec's kill-on-context-end is not replaced (no store to exec.Cmd.Cancel)", "-", "")
	}
}

// ctxFromCaller: v is the context the function was called with - a context parameter of
// an entry point (a constructor called through the registry), or of a helper whose
// every static call site hands on such a parameter; context decorators keep it.
func (e *Env) ctxFromCaller(v ssa.Value, d int) bool {
	if d > 5 {
		return false
	}
	v = ir.Resolve(v)
	switch x := v.(type) {
	case *ssa.Parameter:
		if !strings.HasSuffix(ir.NamedType(x.Type()), "context.Context") {
			return false
		}
		sites := e.StaticCallSites(x.Parent())
		idx := paramIndex(x)
		for _, cs := range sites {
			if idx < 0 || idx >= len(cs.Common().Args) || !e.ctxFromCaller(cs.Common().Args[idx], d+1) {
				return false
			}
		}
		return true
	case *ssa.Call:
		if ir.IsCallTo(&x.Call, "context.WithValue", "context.WithCancel") && len(x.Call.Args) > 0 {
			return e.ctxFromCaller(x.Call.Args[0], d+1)
		}
	case *ssa.Extract:
		if c, ok := x.Tuple.(*ssa.Call); ok && x.Index == 0 && ir.IsCallTo(&c.Call, "context.WithCancel") {
			return e.ctxFromCaller(c.Call.Args[0], d+1)
		}
	}
	return false
}

// c05CancelMark: a node that is running when a stop reaches it is marked canceled,
// whether or not its process exists yet. In the node's signal routine every path
// that is consistent with `status == running` at entry passes a store of `canceled`
// into the node's status before it returns. (A step that was launched but whose
// command has not been created keeps `running` otherwise; its worker, seeing the
// cancel flag, skips the execution and promotes the still-running node to finished:
// a stopped run is reported finished and onSuccess runs instead of onCancel.)
func c05CancelMark(e *Env, s *Sched, rule string) {
	r := e.R
	r.Rule(rule, "MPT", "Node.signal: a running node is marked canceled on every path", 1)
	fn := e.FnQuiet(schedRel, "(*Node).signal")
	if fn == nil {
		r.Unknown("Node.signal", schedRel, "not found")
		return
	}
	recv := fn.Params[0]
	running, cancel := s.val("NodeStatusRunning"), s.val("NodeStatusCancel")
	isStatus := s.isStatusOf(recv)
	var marks []ssa.Instruction
	for _, g := range sortedFns(e.inlinedSet(fn, nil)) {
		for _, ev := range s.statusEvents(g) {
			if k, ok := s.constOf(ev); ok && k == cancel {
				marks = append(marks, ev.Site)
			}
		}
	}
	isMark := func(in ssa.Instruction) bool {
		for _, m := range marks {
			if m == in {
				return true
			}
		}
		return false
	}
	// an edge that cannot be taken by a node that is running
	notRunning := func(from *ssa.BasicBlock, idx int) bool {
		i, ok := from.Instrs[len(from.Instrs)-1].(*ssa.If)
		if !ok {
			return false
		}
		alts := e.Facts(from.Parent()).Alternatives(ir.Lit{Cond: i.Cond, Pol: idx == 0, If: i})
		if len(alts) == 0 {
			return false
		}
		for _, a := range alts {
			l := ir.Normalize(a)
			if l.Kind != "cmp" || !isStatus(l.X) {
				return false
			}
			k, isK := ir.ConstInt(l.Y)
			if !isK {
				return false
			}
			switch l.Op {
			case token.EQL:
				if k == running {
					return false
				}
			case token.NEQ:
				if k != running {
					return false
				}
			default:
				return false
			}
		}
		return true
	}
	bad, _ := ir.Bypass(nil, fn.Blocks[0], ir.PathQuery{
		Stop:     isMark,
		Bad:      ir.IsReturn,
		SkipEdge: notRunning,
		Descend: func(g *ssa.Function) bool {
			return e.P.Funcs[g] && ir.UniqueSite(g) != nil && rootFn(g).Package() == rootFn(fn).Package()
		},
	})
	var facts []string
	if bad != nil {
		facts = append(facts, "a return reached without the mark at "+e.InstrPos(bad))
	}
	r.Check(bad == nil && len(marks) > 0, "Node.signal: a node that is running is marked canceled on every path", e.Pos(fn.Pos()),
		"a stop can leave a running node in state running (e.g. when its process has not been created yet): the worker then skips the execution because of the cancel flag and labels the node finished - the stopped run is reported finished, onSuccess runs, onCancel does not", facts...)
}

// fieldOfParam: v reads field k of the struct parameter p (passed by value): Field(p, k),
// or a load of field k of the local p was spilled into.
func fieldOfParam(v ssa.Value, p *ssa.Parameter) (int, bool) {
	switch x := ir.Resolve(v).(type) {
	case *ssa.Field:
		if ir.Resolve(x.X) == ssa.Value(p) {
			return x.Field, true
		}
	case *ssa.UnOp:
		if x.Op != token.MUL {
			return 0, false
		}
		if fa, ok := x.X.(*ssa.FieldAddr); ok {
			if ir.Resolve(fa.X) == ssa.Value(p) {
				return fa.Field, true
			}
			if al, isA := fa.X.(*ssa.Alloc); isA {
				for _, sv := range ir.StoresTo(al) {
					if ir.Resolve(sv) == ssa.Value(p) {
						return fa.Field, true
					}
				}
			}
		}
	}
	return 0, false
}
