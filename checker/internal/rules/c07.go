package rules

import (
	"go/token"
	"strings"

	"golang.org/x/tools/go/ssa"

	"bdcheck/internal/ir"
)

func init() {
	register(&Prop{ID: "C07", Run: runC07,
		Technique: "static analysis: must-pass-through / ordering of file operations on go/ssa CFGs, flag-constant checks, error value-flow",
		Decided: []string{
			"a status write is acknowledged (nil returned) only after a bufio Flush on that path (C07.ack-after-flush)",
			"compaction removes the original only after the copy was written successfully under its final name; the error path removes only the copy; nothing is renamed after the removal (C07.compact-order)",
			"existing history files are opened with O_APPEND and without O_TRUNC, os.Create only under 'does not exist', and the history store opens files only through that helper (C07.append-only)",
			"a line that does not decode never makes ParseFile fail; the last decoded status is returned (C07.tolerant-reader)",
			"the 'no complete line yet' outcome (nil, io.EOF) of the newest run file must not escape the latest-status query as a hard error (C07.empty-newest) — violated today, known finding F15",
		},
		NotDec: []string{
			"everything that needs the actual interleaving of system calls: torn writes, twin .dat/_c.dat files after a crash inside Close, rename/retention crashes",
			"durability across power loss (fsync ordering)",
		},
	})
}

func runC07(e *Env) {
	c07AckAfterFlush(e)
	c07CompactOrder(e)
	c07AppendOnly(e)
	c07TolerantReader(e)
	c07EmptyNewest(e)
}

// mayBeNil: a returned error value that is not known to be non-nil at the return.
func (e *Env) mayBeNil(rt *ssa.Return, v ssa.Value) bool {
	v = ir.Resolve(v)
	if ir.IsNilConst(v) {
		return true
	}
	if u, ok := v.(*ssa.UnOp); ok && u.Op == token.MUL {
		if _, isG := u.X.(*ssa.Global); isG {
			return false // package-level sentinel error
		}
	}
	for _, l := range e.DCS(rt) {
		if l.Kind == "cmp" && l.Op == token.NEQ && ir.IsNilConst(l.Y) && ir.Resolve(l.X) == v {
			return false
		}
	}
	return true
}

func c07AckAfterFlush(e *Env) {
	r := e.R
	r.Rule("C07.ack-after-flush", "MPT", "writer.write: nil only after Flush", 1)
	fn := e.Fn(jsondbRel, "(*writer).write")
	if fn == nil {
		return
	}
	isFlush := func(in ssa.Instruction) bool {
		c, ok := in.(*ssa.Call)
		return ok && ir.IsCallTo(&c.Call, "(*bufio.Writer).Flush")
	}
	n := 0
	bad, _ := ir.Bypass(nil, fn.Blocks[0], ir.PathQuery{
		Stop: isFlush,
		Bad: func(in ssa.Instruction) bool {
			rt, ok := in.(*ssa.Return)
			if !ok {
				return false
			}
			n++
			for _, v := range RetVals(rt, 0) {
				if e.mayBeNil(rt, v) {
					return true
				}
			}
			return false
		},
	})
	var facts []string
	if bad != nil {
		facts = append(facts, "possibly-nil return at "+e.InstrPos(bad)+" reachable without Flush")
	}
	r.Check(bad == nil, "writer.write: every nil return passes bufio.Writer.Flush", e.Pos(fn.Pos()),
		"a status write can be acknowledged while the bytes are still in the user-space buffer: a crash after the acknowledgement loses the status", facts...)
	// and the value of the final return is the Flush result (an error from Flush is not swallowed)
	okRes := false
	for _, b := range fn.Blocks {
		for _, in := range b.Instrs {
			if st, ok := in.(*ssa.Store); ok {
				if c, ok := st.Val.(*ssa.Call); ok && ir.IsCallTo(&c.Call, "(*bufio.Writer).Flush") {
					okRes = true
				}
			}
			if rt, ok := in.(*ssa.Return); ok {
				if c, ok := rt.Results[0].(*ssa.Call); ok && ir.IsCallTo(&c.Call, "(*bufio.Writer).Flush") {
					okRes = true
				}
			}
			if i, ok := in.(*ssa.If); ok {
				n := ir.Normalize(ir.Lit{Cond: i.Cond, Pol: true})
				if n.Kind == "cmp" && calleeIs(n.X, "(*bufio.Writer).Flush") {
					okRes = true
				}
			}
		}
	}
	r.Check(okRes, "writer.write: the result of Flush is returned or tested", e.Pos(fn.Pos()), "a failing Flush is reported as success")
}

func c07CompactOrder(e *Env) {
	r := e.R
	r.Rule("C07.compact-order", "DCS+MPT", "Compact: remove original only after a successful write of the final copy", 3)
	fn := e.Fn(jsondbRel, "(*JSONDB).Compact")
	write := e.Fn(jsondbRel, "(*writer).write")
	if fn == nil || write == nil {
		return
	}
	orig := ssa.Value(fn.Params[1])
	writeOK := func(lits []ir.NLit) bool {
		for _, l := range lits {
			if l.Kind == "cmp" && l.Op == token.EQL && ir.IsNilConst(l.Y) {
				if c, ok := ir.Resolve(l.X).(*ssa.Call); ok && c.Call.StaticCallee() == write {
					return true
				}
			}
		}
		return false
	}
	nOrig := 0
	for _, ci := range ir.CallsIn(fn, func(c *ssa.CallCommon) bool { return ir.IsCallTo(c, "os.Remove", "os.RemoveAll") }) {
		arg := ir.Resolve(ci.Common().Args[0])
		lits := e.DCS(ci)
		if arg == orig {
			nOrig++
			r.Check(writeOK(lits), "Compact: os.Remove(original) only under write(copy)==nil", e.InstrPos(ci),
				"the original run file can be removed although the compacted copy was not written successfully", e.FactsStr("dominating conditions: ", lits))
			bad, _ := ir.Bypass(ci, nil, ir.PathQuery{Bad: func(in ssa.Instruction) bool {
				c, ok := in.(ssa.CallInstruction)
				return ok && ir.IsCallTo(c.Common(), "os.Rename", "os.Link", "os.Symlink")
			}})
			r.Check(bad == nil, "Compact: nothing is renamed after the original was removed", e.InstrPos(ci),
				"the compacted data gets its final name only after the original was removed: a crash in between leaves the run under a name no query matches")
		} else {
			r.Check(!writeOK(lits), "Compact: the copy is removed only on the write-error path", e.InstrPos(ci),
				"the compacted copy is removed on the success path")
		}
	}
	if nOrig == 0 {
		r.Bad("Compact: os.Remove(original) only under write(copy)==nil", e.Pos(fn.Pos()), "Compact no longer removes the original run file (twins accumulate) — or removes it through an unrecognised path")
	}
	// the copy's target name ends with the extension the glob patterns select
	okName := false
	for _, ev := range e.C.FieldStores(fn, "target") {
		tr := &ir.Tracer{C: e.C, Through: ir.StringThrough}
		for _, l := range tr.Trace(ev.Val) {
			if l.Kind == "const" {
				if s, ok := ir.ConstString(l.V); ok && strings.HasSuffix(s, ".dat") {
					okName = true
				}
			}
		}
		// a suffix appended after the .dat name (e.g. ".tmp") would make the tracer see another constant last;
		// require that the value is NOT a concatenation whose right operand is a non-.dat constant
		if bo, ok := ir.Resolve(ev.Val).(*ssa.BinOp); ok && bo.Op == token.ADD {
			if s, ok := ir.ConstString(bo.Y); ok && !strings.HasSuffix(s, ".dat") {
				okName = false
			}
		}
	}
	r.Check(okName, "Compact: the copy is written under a *.dat name", e.Pos(fn.Pos()),
		"the compacted copy is written under a name the history queries' *.dat patterns do not match")
}

func c07AppendOnly(e *Env) {
	r := e.R
	r.Rule("C07.append-only", "AGR+DCS", "existing files opened O_APPEND without O_TRUNC; Create only when absent; single open helper", 3)
	ooc := e.Fn("internal/util", "OpenOrCreateFile")
	if ooc == nil {
		return
	}
	const oAppend, oTrunc, oCreate = 0x400, 0x200, 0x40
	var check func(f *ssa.Function, lits []ir.NLit, depth int)
	exists := func(lits []ir.NLit, pol bool) bool {
		return HasVal(lits, func(v ssa.Value) bool { return calleeIs(v, "util.FileExists") }, pol)
	}
	check = func(f *ssa.Function, outer []ir.NLit, depth int) {
		for _, ci := range ir.CallsIn(f, func(c *ssa.CallCommon) bool { return true }) {
			lits := append(append([]ir.NLit{}, outer...), e.DCS(ci)...)
			switch ir.CalleeName(ci.Common()) {
			case "os.OpenFile":
				fl, ok := ir.ConstInt(ci.Common().Args[1])
				if !ok {
					r.Unknown(ShortFn(f)+": os.OpenFile flags", e.InstrPos(ci), "flags are not constant")
					continue
				}
				okf := fl&oAppend != 0 && fl&oTrunc == 0
				r.Check(okf, ShortFn(f)+": os.OpenFile with O_APPEND and without O_TRUNC", e.InstrPos(ci),
					sprintf("an existing history/log file is opened with flags %#x: not append-only (a status update would overwrite or truncate recorded lines)", fl))
			case "os.Create":
				r.Check(exists(lits, false), ShortFn(f)+": os.Create only when the file does not exist", e.InstrPos(ci),
					"os.Create (truncating) can be applied to an existing file", e.FactsStr("conditions: ", lits))
			case "os.WriteFile":
				r.Bad(ShortFn(f)+": os.WriteFile in the open helper", e.InstrPos(ci), "truncating write")
			default:
				if sc := ci.Common().StaticCallee(); sc != nil && e.P.Funcs[sc] && depth < 3 && sc.Pkg == f.Pkg {
					check(sc, lits, depth+1)
				}
			}
		}
	}
	check(ooc, nil, 0)
	// the history store opens files for writing only through writer.open → OpenOrCreateFile(w.target)
	sp := e.P.Pkg(jsondbRel)
	open := e.Fn(jsondbRel, "(*writer).open")
	for _, f := range e.RepoFuncsSorted() {
		if rootFn(f).Package() != sp {
			continue
		}
		for _, ci := range ir.CallsIn(f, func(c *ssa.CallCommon) bool {
			return ir.IsCallTo(c, "os.OpenFile", "os.Create", "os.WriteFile", "os.Truncate", "(*os.File).Truncate")
		}) {
			r.Bad(ShortFn(f)+": opens a history file for writing outside the append-only helper", e.InstrPos(ci),
				"the history store writes a file through "+shortCallee(ci.Common())+" instead of the append-only open helper")
		}
	}
	if open != nil {
		ok := false
		for _, ci := range ir.CallsIn(open, func(c *ssa.CallCommon) bool { return c.StaticCallee() == ooc }) {
			if e.IsFieldRead(ci.Common().Args[0], nil, "target") {
				ok = true
			}
		}
		r.Check(ok, "writer.open: util.OpenOrCreateFile(w.target)", e.Pos(open.Pos()), "the history writer does not open its target through the append-only helper")
	}
}

func c07TolerantReader(e *Env) {
	r := e.R
	r.Rule("C07.tolerant-reader", "VF", "ParseFile: a line's decode error never reaches a return; last decoded status returned", 2)
	fn := e.Fn(jsondbRel, "ParseFile")
	if fn == nil {
		return
	}
	var decodeCalls []*ssa.Call
	for _, ci := range ir.CallsIn(fn, func(c *ssa.CallCommon) bool { return strings.HasSuffix(ir.CalleeName(c), "model.StatusFromJSON") }) {
		if c, ok := ci.(*ssa.Call); ok {
			decodeCalls = append(decodeCalls, c)
		}
	}
	if len(decodeCalls) == 0 {
		r.Unknown("ParseFile: line decoder call", e.Pos(fn.Pos()), "no model.StatusFromJSON call")
		return
	}
	fromDecode := func(v ssa.Value, idx int) bool {
		fl := &ir.Flow{C: e.C, Source: func(x ssa.Value) bool {
			ex, ok := x.(*ssa.Extract)
			if !ok || ex.Index != idx {
				return false
			}
			for _, dc := range decodeCalls {
				if ex.Tuple == ssa.Value(dc) {
					return true
				}
			}
			return false
		}}
		return fl.Any(v)
	}
	for _, b := range fn.Blocks {
		for _, in := range b.Instrs {
			rt, ok := in.(*ssa.Return)
			if !ok || !e.Facts(fn).Reachable(b) || len(rt.Results) != 2 {
				continue
			}
			vals := RetVals(rt, 1)
			bad := false
			for _, v := range vals {
				if fromDecode(v, 1) {
					bad = true
				}
			}
			r.Check(!bad, "ParseFile: returned error does not come from decoding a line", e.InstrPos(rt),
				"a line that does not decode (torn last line after a crash) makes the whole run file unreadable")
		}
	}
	// the kept status is updated only under err == nil of the decoder
	for _, dc := range decodeCalls {
		var st0 *ssa.Extract
		for _, ref := range *dc.Referrers() {
			if ex, ok := ref.(*ssa.Extract); ok && ex.Index == 0 {
				st0 = ex
			}
		}
		if st0 == nil {
			r.Bad("ParseFile: decoded status kept", e.InstrPos(dc), "the decoded status is discarded")
			continue
		}
		// uses of st0 as a phi operand / store: the edge must be under err == nil
		ok, found := true, false
		for _, ref := range *st0.Referrers() {
			switch x := ref.(type) {
			case *ssa.Phi:
				for k, ed := range x.Edges {
					if ed == ssa.Value(st0) {
						found = true
						lits := e.DCSPhiEdge(x.Block(), k)
						g := false
						for _, l := range lits {
							if l.Kind == "cmp" && l.Op == token.EQL && ir.IsNilConst(l.Y) {
								if ex, isE := ir.Resolve(l.X).(*ssa.Extract); isE && ex.Tuple == ssa.Value(dc) && ex.Index == 1 {
									g = true
								}
							}
						}
						if !g {
							ok = false
						}
					}
				}
			case *ssa.Store:
				found = true
				g := false
				for _, l := range e.DCS(x) {
					if l.Kind == "cmp" && l.Op == token.EQL && ir.IsNilConst(l.Y) {
						if ex, isE := ir.Resolve(l.X).(*ssa.Extract); isE && ex.Tuple == ssa.Value(dc) && ex.Index == 1 {
							g = true
						}
					}
				}
				if !g {
					ok = false
				}
			}
		}
		r.Check(ok && found, "ParseFile: kept status replaced only by a successfully decoded line", e.InstrPos(dc),
			"the status kept so far is replaced by the result of a failed decode (nil), hiding acknowledged data")
	}
}

func c07EmptyNewest(e *Env) {
	r := e.R
	r.Rule("C07.empty-newest", "error-flow", "(nil, io.EOF) of an empty newest file must not escape the latest-status query", 1)
	pf := e.Fn(jsondbRel, "ParseFile")
	rst := e.Fn(jsondbRel, "(*JSONDB).ReadStatusToday")
	if pf == nil || rst == nil {
		return
	}
	// does ParseFile have the outcome (nil, EOF)?
	isEOF := func(v ssa.Value) bool {
		u, ok := ir.Resolve(v).(*ssa.UnOp)
		if !ok {
			return false
		}
		g, ok := u.X.(*ssa.Global)
		return ok && g.Name() == "EOF" && g.Pkg.Pkg.Path() == "io"
	}
	emptyOutcome := false
	for _, b := range pf.Blocks {
		for _, in := range b.Instrs {
			rt, ok := in.(*ssa.Return)
			if !ok || len(rt.Results) != 2 {
				continue
			}
			allNil := true
			for _, v := range RetVals(rt, 0) {
				if !ir.IsNilConst(ir.Resolve(v)) {
					allNil = false
				}
			}
			if !allNil {
				continue
			}
			for _, l := range e.DCS(rt) {
				if l.Kind == "cmp" && l.Op == token.EQL && (isEOF(l.X) || isEOF(l.Y)) {
					emptyOutcome = true
				}
			}
		}
	}
	if !emptyOutcome {
		r.OK("ParseFile: no (nil, io.EOF) outcome", e.Pos(pf.Pos()), "an empty file is not reported as an error")
		return
	}
	// is that outcome handled between ParseFile and the result of the latest-status query?
	handled := false
	for _, f := range ir.WithClosures(rst) {
		for _, b := range f.Blocks {
			for _, in := range b.Instrs {
				switch x := in.(type) {
				case *ssa.BinOp:
					if isEOF(x.X) || isEOF(x.Y) {
						handled = true
					}
				case *ssa.Call:
					if ir.IsCallTo(&x.Call, "errors.Is") && len(x.Call.Args) == 2 && isEOF(x.Call.Args[1]) {
						handled = true
					}
				}
			}
		}
	}
	r.Check(handled, "ReadStatusToday: the empty-newest-file outcome (nil, io.EOF) is handled", e.Pos(rst.Pos()),
		"a run file that exists but has no complete line yet (process killed between Open and the first Write) makes the latest-status query fail with io.EOF: older completed runs are hidden, the daemon's start guard and the UI treat it as a hard error")
}
