package rules

import (
	"go/token"
	"go/types"
	"strings"

	"golang.org/x/tools/go/ssa"

	"bdcheck/internal/ir"
)

func init() {
	register(&Prop{ID: "C07", Run: runC07,
		Technique: "static analysis: must-pass-through / ordering of file operations on go/ssa CFGs, flag-constant checks, error value-flow",
		Decided: []string{
			"the compaction is only ever given the closing writer's own file (C07.compact-own-file)",
			"history Rename moves the run files one by one: every os.Rename it reaches has an element of a directory listing as its source (C07.rename-file-by-file)",
			"a status write is acknowledged (nil returned) only after a bufio Flush on that path (C07.ack-after-flush)",
			"compaction removes the original only after the copy was written successfully under its final name; the error path removes only the copy; nothing is renamed after the removal (C07.compact-order)",
			"existing history files are opened with O_APPEND and without O_TRUNC, os.Create only under 'does not exist', and the history store opens files only through that helper (C07.append-only)",
			"a line that does not decode never makes ParseFile fail; the last decoded status is returned (C07.tolerant-reader)",
			"every list of run files the history store sorts, slices or walks is a complete glob result or a newest-first prefix of it: no candidate is dropped by its name before being opened (C07.all-matches-considered)",
			"the 'no complete line yet' outcome (nil, io.EOF) of the newest run file must not escape the latest-status query as a hard error (C07.empty-newest) — violated today, known finding F15",
		},
		NotDec: []string{
			"everything that needs the actual interleaving of system calls: torn writes, twin .dat/_c.dat files after a crash inside Close, rename/retention crashes",
			"durability across power loss (fsync ordering)",
		},
	})
}

func runC07(e *Env) {
	c07AckAfterFlush(e)
	c07CompactOrder(e)
	c07AppendOnly(e)
	c07TolerantReader(e)
	c07EmptyNewest(e)
	c07Candidates(e)
	cHistoryRenameSingly(e, "C07.rename-file-by-file")
	c07CompactOwnFile(e)
}

// mayBeNil: a returned error value that is not known to be non-nil at the return.
func (e *Env) mayBeNil(rt *ssa.Return, v ssa.Value) bool {
	v = ir.Resolve(v)
	if ir.IsNilConst(v) {
		return true
	}
	if u, ok := v.(*ssa.UnOp); ok && u.Op == token.MUL {
		if _, isG := u.X.(*ssa.Global); isG {
			return false // package-level sentinel error
		}
	}
	for _, l := range e.DCS(rt) {
		if l.Kind == "cmp" && l.Op == token.NEQ && ir.IsNilConst(l.Y) && ir.Resolve(l.X) == v {
			return false
		}
	}
	return true
}

func c07AckAfterFlush(e *Env) {
	r := e.R
	r.Rule("C07.ack-after-flush", "MPT", "writer.write: nil only after Flush", 1)
	fn := e.Fn(jsondbRel, "(*writer).write")
	if fn == nil {
		return
	}
	isFlush := func(in ssa.Instruction) bool {
		c, ok := in.(*ssa.Call)
		return ok && ir.IsCallTo(&c.Call, "(*bufio.Writer).Flush")
	}
	n := 0
	// "returns a possibly-nil error only after Flush", through helpers: a return of
	// the result of a helper that itself has this property is fine
	memo := map[*ssa.Function]bool{}
	var firstBad ssa.Instruction
	var nilOnlyAfterFlush func(g *ssa.Function, depth int) bool
	nilOnlyAfterFlush = func(g *ssa.Function, depth int) bool {
		if v, ok := memo[g]; ok {
			return v
		}
		memo[g] = false
		if g == nil || g.Blocks == nil || depth > 4 {
			return false
		}
		last := g.Signature.Results().Len() - 1
		if last < 0 {
			return false
		}
		b, _ := ir.Bypass(nil, g.Blocks[0], ir.PathQuery{
			Stop: isFlush,
			Bad: func(in ssa.Instruction) bool {
				rt, ok := in.(*ssa.Return)
				if !ok {
					return false
				}
				n++
				for _, v := range RetVals(rt, last) {
					if c, isC := ir.Resolve(v).(*ssa.Call); isC {
						if h := c.Call.StaticCallee(); h != nil && e.P.Funcs[h] && nilOnlyAfterFlush(h, depth+1) {
							continue
						}
					}
					if e.mayBeNil(rt, v) {
						return true
					}
				}
				return false
			},
		})
		if b != nil && firstBad == nil {
			firstBad = b
		}
		memo[g] = b == nil
		return memo[g]
	}
	okAck := nilOnlyAfterFlush(fn, 0)
	bad := firstBad
	if okAck {
		bad = nil
	}
	var facts []string
	if bad != nil {
		facts = append(facts, "possibly-nil return at "+e.InstrPos(bad)+" reachable without Flush")
	}
	r.Check(bad == nil, "writer.write: every nil return passes bufio.Writer.Flush", e.Pos(fn.Pos()),
		"a status write can be acknowledged while the bytes are still in the user-space buffer: a crash after the acknowledgement loses the status", facts...)
	// and the value of the final return is the Flush result (an error from Flush is not swallowed)
	okRes := false
	for _, g := range e.staticClosure(fn) {
		for _, b := range g.Blocks {
			for _, in := range b.Instrs {
				if st, ok := in.(*ssa.Store); ok {
					if c, ok := st.Val.(*ssa.Call); ok && ir.IsCallTo(&c.Call, "(*bufio.Writer).Flush") {
						okRes = true
					}
				}
				if rt, ok := in.(*ssa.Return); ok {
					if len(rt.Results) == 0 {
						continue
					}
					if c, ok := rt.Results[len(rt.Results)-1].(*ssa.Call); ok && ir.IsCallTo(&c.Call, "(*bufio.Writer).Flush") {
						okRes = true
					}
				}
				if i, ok := in.(*ssa.If); ok {
					n := ir.Normalize(ir.Lit{Cond: i.Cond, Pol: true})
					if n.Kind == "cmp" && calleeIs(n.X, "(*bufio.Writer).Flush") {
						okRes = true
					}
				}
			}
		}
	}
	r.Check(okRes, "writer.write: the result of Flush is returned or tested", e.Pos(fn.Pos()), "a failing Flush is reported as success")
}

func c07CompactOrder(e *Env) {
	r := e.R
	r.Rule("C07.compact-order", "DCS+MPT", "Compact: remove original only after a successful write of the final copy", 3)
	fn := e.Fn(jsondbRel, "(*JSONDB).Compact")
	write := e.Fn(jsondbRel, "(*writer).write")
	if fn == nil || write == nil {
		return
	}
	orig := ssa.Value(fn.Params[1])
	writeOK := func(lits []ir.NLit) bool {
		for _, l := range lits {
			if l.Kind == "cmp" && l.Op == token.EQL && ir.IsNilConst(l.Y) {
				if c, ok := ir.Resolve(l.X).(*ssa.Call); ok && c.Call.StaticCallee() == write {
					return true
				}
			}
		}
		return false
	}
	nOrig := 0
	// Compact with the helpers of the store it alone calls (their parameters stand for
	// its arguments); a removal of `a or b` is judged per alternative, under the
	// conditions of the branch that chose it
	var scope []*ssa.Function
	for _, g := range e.withPkgHelpers(fn) {
		if rootFn(g) == fn || ir.UniqueSite(rootFn(g)) != nil {
			scope = append(scope, g)
		}
	}
	type remAlt struct {
		v    ssa.Value
		lits []ir.NLit
	}
	for _, g := range scope {
		for _, ci := range ir.CallsIn(g, func(c *ssa.CallCommon) bool { return ir.IsCallTo(c, "os.Remove", "os.RemoveAll") }) {
			arg := ir.Resolve(ci.Common().Args[0])
			alts := []remAlt{{arg, e.DCS(ci)}}
			if ph, isPhi := arg.(*ssa.Phi); isPhi {
				alts = nil
				for k, ev := range ph.Edges {
					alts = append(alts, remAlt{ev, append(append([]ir.NLit{}, e.DCS(ci)...), e.DCSPhiEdge(ph.Block(), k)...)})
				}
			}
			for _, a := range alts {
				lits := a.lits
				if ir.Deep(a.v) == ir.Deep(orig) {
					nOrig++
					r.Check(writeOK(lits), "Compact: os.Remove(original) only under write(copy)==nil", e.InstrPos(ci),
						"the original run file can be removed although the compacted copy was not written successfully", e.FactsStr("dominating conditions: ", lits))
					bad, _ := ir.Bypass(ci, nil, ir.PathQuery{Bad: func(in ssa.Instruction) bool {
						c, ok := in.(ssa.CallInstruction)
						return ok && ir.IsCallTo(c.Common(), "os.Rename", "os.Link", "os.Symlink")
					}})
					r.Check(bad == nil, "Compact: nothing is renamed after the original was removed", e.InstrPos(ci),
						"the compacted data gets its final name only after the original was removed: a crash in between leaves the run under a name no query matches")
				} else {
					r.Check(!writeOK(lits), "Compact: the copy is removed only on the write-error path", e.InstrPos(ci),
						"the compacted copy is removed on the success path")
				}
			}
		}
	}
	if nOrig == 0 {
		r.Bad("Compact: os.Remove(original) only under write(copy)==nil", e.Pos(fn.Pos()), "Compact no longer removes the original run file (twins accumulate) — or removes it through an unrecognised path")
	}
	// the copy's target name ends with the extension the glob patterns select
	okName := false
	for _, g := range scope {
		for _, ev := range e.C.FieldStores(g, "target") {
			if suf, ok := strSuffix(e, ev.Val, 0); ok && strings.HasSuffix(suf, ".dat") {
				okName = true
			}
		}
	}
	// the writer may be built by a helper that is handed the name (`openWriter(compacted)`)
	for _, ci := range ir.CallsIn(fn, func(c *ssa.CallCommon) bool {
		h := c.StaticCallee()
		return h != nil && e.P.Funcs[h] && h.Blocks != nil && rootFn(h).Package() == rootFn(fn).Package()
	}) {
		h := ci.Common().StaticCallee()
		for _, ev := range e.C.FieldStores(h, "target") {
			for k, hp := range h.Params {
				if ir.Resolve(ev.Val) == ssa.Value(hp) && k < len(ci.Common().Args) {
					if suf, ok := strSuffix(e, ci.Common().Args[k], 0); ok && strings.HasSuffix(suf, ".dat") {
						okName = true
					}
				}
			}
		}
	}
	r.Check(okName, "Compact: the copy is written under a *.dat name", e.Pos(fn.Pos()),
		"the compacted copy is written under a name the history queries' *.dat patterns do not match")
}

// strSuffix computes the constant text a string expression is known to end
// with: the right end of concatenations, the last element of filepath.Join, the
// literal tail of a Sprintf format, through repository helpers whose every
// return agrees.
func strSuffix(e *Env, v ssa.Value, depth int) (string, bool) {
	if depth > 8 || v == nil {
		return "", false
	}
	v = ir.Resolve(v)
	if s, ok := ir.ConstString(v); ok {
		return s, s != ""
	}
	switch x := v.(type) {
	case *ssa.BinOp:
		if x.Op == token.ADD {
			if s, ok := strSuffix(e, x.Y, depth+1); ok {
				return s, true
			}
		}
	case *ssa.Phi:
		var res string
		for i, ed := range x.Edges {
			s, ok := strSuffix(e, ed, depth+1)
			if !ok || (i > 0 && s != res) {
				return "", false
			}
			res = s
		}
		return res, res != ""
	case *ssa.Call:
		name := ir.CalleeName(&x.Call)
		switch name {
		case "path/filepath.Join", "path.Join":
			els := sliceElems(x.Call.Args[0])
			if len(els) > 0 {
				return strSuffix(e, els[len(els)-1], depth+1)
			}
		case "fmt.Sprintf":
			f, ok := ir.ConstString(x.Call.Args[0])
			if !ok {
				return "", false
			}
			if i := strings.LastIndex(f, "%"); i >= 0 && i+2 <= len(f) {
				if tail := f[i+2:]; tail != "" {
					return tail, true
				}
				// the format ends with a verb: the last argument's suffix
				var els []ssa.Value
				for _, a := range x.Call.Args[1:] {
					els = append(els, sliceElems(a)...)
				}
				if len(els) > 0 {
					last := els[len(els)-1]
					if mi, isMI := last.(*ssa.MakeInterface); isMI {
						last = mi.X
					}
					return strSuffix(e, last, depth+1)
				}
				return "", false
			}
			return f, f != ""
		}
		if sc := x.Call.StaticCallee(); sc != nil && e.P.Funcs[sc] {
			var res string
			n := 0
			for _, b := range sc.Blocks {
				for _, in := range b.Instrs {
					if rt, ok := in.(*ssa.Return); ok && len(rt.Results) > 0 {
						s, ok := strSuffix(e, rt.Results[0], depth+1)
						if !ok || (n > 0 && s != res) {
							return "", false
						}
						res = s
						n++
					}
				}
			}
			return res, n > 0 && res != ""
		}
	}
	return "", false
}

func c07AppendOnly(e *Env) {
	sp := e.P.Pkg(jsondbRel)
	if sp == nil {
		e.R.Rule("C07.append-only", "AGR+DCS (call-chain conditions)", "the history store opens existing files for writing only O_APPEND without O_TRUNC; truncating creation only when the file is absent", 1)
		e.R.Unknown("package "+jsondbRel, "-", "not found")
		return
	}
	var roots []*ssa.Function
	for _, f := range e.RepoFuncsSorted() {
		if f.Parent() == nil && f.Package() == sp {
			roots = append(roots, f)
		}
	}
	appendOnlyFrom(e, "C07.append-only", "the history store opens existing files for writing only O_APPEND without O_TRUNC; truncating creation only when the file is absent", "history store", "a history file that may already hold recorded lines", roots)
}

// appendOnlyFrom: every open-for-writing reachable from the roots through repository
// functions is append-only (O_APPEND, no O_TRUNC) unless the file is known to be new.
func appendOnlyFrom(e *Env, rule, desc, who, what string, roots []*ssa.Function) {
	r := e.R
	r.Rule(rule, "AGR+DCS (call-chain conditions)", desc, 1)
	const oWronly, oRdwr, oAppend, oTrunc, oCreate, oExcl = 0x1, 0x2, 0x400, 0x200, 0x40, 0x80
	absent := func(lits []ir.NLit) bool { // a dominating "file does not exist" test
		return HasVal(lits, func(v ssa.Value) bool {
			c, ok := ir.Resolve(v).(*ssa.Call)
			if !ok {
				return false
			}
			n := ir.CalleeName(&c.Call)
			return strings.HasSuffix(n, ".FileExists") || strings.HasSuffix(n, ".exists") || strings.HasSuffix(n, ".fileExists")
		}, false)
	}
	type key struct {
		f *ssa.Function
	}
	nApp := 0
	reported := map[ssa.Instruction]bool{}
	var walk func(f *ssa.Function, outer []ir.NLit, chain string, depth int, seen map[*ssa.Function]bool)
	walk = func(f *ssa.Function, outer []ir.NLit, chain string, depth int, seen map[*ssa.Function]bool) {
		if seen[f] || depth > 4 {
			return
		}
		seen[f] = true
		defer delete(seen, f)
		for _, g := range ir.WithClosures(f) {
			for _, ci := range ir.CallsIn(g, func(c *ssa.CallCommon) bool { return true }) {
				lits := append(append([]ir.NLit{}, outer...), e.DCS(ci)...)
				c := ci.Common()
				switch ir.CalleeName(c) {
				case "os.OpenFile":
					if reported[ci] {
						continue
					}
					fl, ok := ir.ConstInt(c.Args[1])
					if !ok {
						reported[ci] = true
						r.Unknown(ShortFn(g)+": os.OpenFile flags", e.InstrPos(ci), "flags are not constant")
						continue
					}
					if fl&(oWronly|oRdwr) == 0 {
						continue // read-only
					}
					reported[ci] = true
					okf := fl&oAppend != 0 && fl&oTrunc == 0
					if !okf && (fl&oExcl != 0 && fl&oCreate != 0 || absent(lits)) && fl&oTrunc == 0 {
						okf = true // a new file: nothing recorded can be overwritten
					}
					if fl&oAppend != 0 {
						nApp++
					}
					r.Check(okf, ShortFn(g)+": os.OpenFile for writing is append-only (O_APPEND, no O_TRUNC) unless the file is new", e.InstrPos(ci),
						sprintf("%s is opened with flags %#x: what is written next overwrites the recorded bytes from offset 0 or truncates them", what, fl), "reached through "+chain, e.FactsStr("conditions: ", lits))
				case "os.Create":
					if reported[ci] {
						continue
					}
					reported[ci] = true
					r.Check(absent(lits), ShortFn(g)+": os.Create only when the file does not exist", e.InstrPos(ci),
						"os.Create (truncating) can be applied to "+what, "reached through "+chain, e.FactsStr("conditions: ", lits))
				case "os.WriteFile", "io/ioutil.WriteFile", "os.Truncate", "(*os.File).Truncate":
					if reported[ci] {
						continue
					}
					reported[ci] = true
					r.Bad(ShortFn(g)+": "+shortCallee(c)+" on "+what, e.InstrPos(ci), "truncating write in the "+who, "reached through "+chain)
				default:
					if sc := c.StaticCallee(); sc != nil && e.P.Funcs[sc] {
						walk(sc, lits, chain+"→"+ShortFn(sc), depth+1, seen)
					} else if sc == nil && !c.IsInvoke() {
						// a call of a function value (`for _, prepare := range []func() error{n.setupLog, …}`):
						// the repository functions of the same package the call graph offers
						if n := e.P.CG.Nodes[g]; n != nil {
							for _, ed := range n.Out {
								if ed.Site != ci || !e.P.Funcs[ed.Callee.Func] {
									continue
								}
								for _, t := range append([]*ssa.Function{ed.Callee.Func}, boundTargets(ed.Callee.Func)...) {
									if e.P.Funcs[t] && t.Synthetic == "" && rootFn(t).Package() == rootFn(f).Package() {
										walk(t, lits, chain+"→"+ShortFn(t), depth+1, seen)
									}
								}
							}
						}
					}
				}
			}
		}
	}
	for _, f := range roots {
		walk(f, nil, ShortFn(f), 0, map[*ssa.Function]bool{})
	}
	if nApp == 0 {
		r.Bad(who+": an append-mode open exists", "-", "no O_APPEND open is reachable from the "+who+": nothing can be appended to an existing file")
	}
}

func c07TolerantReader(e *Env) {
	r := e.R
	r.Rule("C07.tolerant-reader", "VF", "ParseFile: a line's decode error never reaches a return; last decoded status returned", 2)
	fn := e.Fn(jsondbRel, "ParseFile")
	if fn == nil {
		return
	}
	var decodeCalls []*ssa.Call
	for _, ci := range ir.CallsIn(fn, func(c *ssa.CallCommon) bool { return strings.HasSuffix(ir.CalleeName(c), "model.StatusFromJSON") }) {
		if c, ok := ci.(*ssa.Call); ok {
			decodeCalls = append(decodeCalls, c)
		}
	}
	if len(decodeCalls) == 0 {
		r.Unknown("ParseFile: line decoder call", e.Pos(fn.Pos()), "no model.StatusFromJSON call")
		return
	}
	fromDecode := func(v ssa.Value, idx int) bool {
		fl := &ir.Flow{C: e.C, Source: func(x ssa.Value) bool {
			ex, ok := x.(*ssa.Extract)
			if !ok || ex.Index != idx {
				return false
			}
			for _, dc := range decodeCalls {
				if ex.Tuple == ssa.Value(dc) {
					return true
				}
			}
			return false
		}}
		return fl.Any(v)
	}
	for _, b := range fn.Blocks {
		for _, in := range b.Instrs {
			rt, ok := in.(*ssa.Return)
			if !ok || !e.Facts(fn).Reachable(b) || len(rt.Results) != 2 {
				continue
			}
			vals := RetVals(rt, 1)
			bad := false
			for _, v := range vals {
				if fromDecode(v, 1) {
					bad = true
				}
			}
			r.Check(!bad, "ParseFile: returned error does not come from decoding a line", e.InstrPos(rt),
				"a line that does not decode (torn last line after a crash) makes the whole run file unreadable")
		}
	}
	// the kept status is updated only under err == nil of the decoder
	for _, dc := range decodeCalls {
		var st0 *ssa.Extract
		for _, ref := range *dc.Referrers() {
			if ex, ok := ref.(*ssa.Extract); ok && ex.Index == 0 {
				st0 = ex
			}
		}
		if st0 == nil {
			r.Bad("ParseFile: decoded status kept", e.InstrPos(dc), "the decoded status is discarded")
			continue
		}
		// uses of st0 as a phi operand / store: the edge must be under err == nil
		ok, found := true, false
		for _, ref := range *st0.Referrers() {
			switch x := ref.(type) {
			case *ssa.Phi:
				for k, ed := range x.Edges {
					if ed == ssa.Value(st0) {
						found = true
						lits := e.DCSPhiEdge(x.Block(), k)
						g := false
						for _, l := range lits {
							if l.Kind == "cmp" && l.Op == token.EQL && ir.IsNilConst(l.Y) {
								if ex, isE := ir.Resolve(l.X).(*ssa.Extract); isE && ex.Tuple == ssa.Value(dc) && ex.Index == 1 {
									g = true
								}
							}
						}
						if !g {
							ok = false
						}
					}
				}
			case *ssa.Store:
				found = true
				g := false
				for _, l := range e.DCS(x) {
					if l.Kind == "cmp" && l.Op == token.EQL && ir.IsNilConst(l.Y) {
						if ex, isE := ir.Resolve(l.X).(*ssa.Extract); isE && ex.Tuple == ssa.Value(dc) && ex.Index == 1 {
							g = true
						}
					}
				}
				if !g {
					ok = false
				}
			}
		}
		r.Check(ok && found, "ParseFile: kept status replaced only by a successfully decoded line", e.InstrPos(dc),
			"the status kept so far is replaced by the result of a failed decode (nil), hiding acknowledged data")
	}
}

func c07EmptyNewest(e *Env) {
	r := e.R
	r.Rule("C07.empty-newest", "error-flow", "(nil, io.EOF) of an empty newest file must not escape the latest-status query", 1)
	pf := e.Fn(jsondbRel, "ParseFile")
	rst := e.Fn(jsondbRel, "(*JSONDB).ReadStatusToday")
	if pf == nil || rst == nil {
		return
	}
	// does ParseFile have the outcome (nil, EOF)?
	isEOF := func(v ssa.Value) bool {
		u, ok := ir.Resolve(v).(*ssa.UnOp)
		if !ok {
			return false
		}
		g, ok := u.X.(*ssa.Global)
		return ok && g.Name() == "EOF" && g.Pkg.Pkg.Path() == "io"
	}
	emptyOutcome := false
	for _, b := range pf.Blocks {
		for _, in := range b.Instrs {
			rt, ok := in.(*ssa.Return)
			if !ok || len(rt.Results) != 2 {
				continue
			}
			allNil := true
			for _, v := range RetVals(rt, 0) {
				if !ir.IsNilConst(ir.Resolve(v)) {
					allNil = false
				}
			}
			if !allNil {
				continue
			}
			for _, l := range e.DCS(rt) {
				if l.Kind == "cmp" && l.Op == token.EQL && (isEOF(l.X) || isEOF(l.Y)) {
					emptyOutcome = true
				}
			}
		}
	}
	if !emptyOutcome {
		r.OK("ParseFile: no (nil, io.EOF) outcome", e.Pos(pf.Pos()), "an empty file is not reported as an error")
		return
	}
	// is that outcome handled between ParseFile and the result of the latest-status query?
	handled := false
	for _, f := range ir.WithClosures(rst) {
		for _, b := range f.Blocks {
			for _, in := range b.Instrs {
				switch x := in.(type) {
				case *ssa.BinOp:
					if isEOF(x.X) || isEOF(x.Y) {
						handled = true
					}
				case *ssa.Call:
					if ir.IsCallTo(&x.Call, "errors.Is") && len(x.Call.Args) == 2 && isEOF(x.Call.Args[1]) {
						handled = true
					}
				}
			}
		}
	}
	r.Check(handled, "ReadStatusToday: the empty-newest-file outcome (nil, io.EOF) is handled", e.Pos(rst.Pos()),
		"a run file that exists but has no complete line yet (process killed between Open and the first Write) makes the latest-status query fail with io.EOF: older completed runs are hidden, the daemon's start guard and the UI treat it as a hard error")
}

// c07Candidates: the lists of run files the history store sorts, slices and walks
// are complete glob results, or newest-first prefixes of them: no reader (and no
// rename / retention sweep) narrows the candidates by their NAMES before looking at
// them. A run interrupted inside the compaction leaves the complete original next to
// an empty or torn twin; a reader that prefers one of the two by name hides the
// acknowledged record (the tolerant reader only helps for files that are opened).
func c07Candidates(e *Env) {
	r := e.R
	r.Rule("C07.all-matches-considered", "VF", "every list of run files that is indexed is a glob result or a prefix of one", 3)
	sp := e.P.Pkg(jsondbRel)
	if sp == nil {
		r.Unknown("history store package", "", "not found")
		return
	}
	isStrSlice := func(t types.Type) bool {
		s, ok := t.Underlying().(*types.Slice)
		if !ok {
			return false
		}
		b, ok := s.Elem().Underlying().(*types.Basic)
		return ok && b.Kind() == types.String
	}
	var accepted func(v ssa.Value, seen map[ssa.Value]bool, d int) (bool, string)
	accepted = func(v ssa.Value, seen map[ssa.Value]bool, d int) (bool, string) {
		v = ir.Resolve(v)
		if seen[v] {
			return true, ""
		}
		if d > 10 {
			return false, "origin too deep"
		}
		seen[v] = true
		switch x := v.(type) {
		case *ssa.Const:
			return x.IsNil(), "constant"
		case *ssa.Extract:
			if c, ok := x.Tuple.(*ssa.Call); ok && x.Index == 0 {
				if ir.IsCallTo(&c.Call, "path/filepath.Glob") {
					return true, ""
				}
				return accepted(c, seen, d+1)
			}
		case *ssa.Slice:
			if x.Low != nil {
				if k, isK := ir.ConstInt(x.Low); !isK || k != 0 {
					return false, "a sub-slice that does not start at the first element at " + e.InstrPos(x)
				}
			}
			return accepted(x.X, seen, d+1)
		case *ssa.Phi:
			for _, ev := range x.Edges {
				if ok, why := accepted(ev, seen, d+1); !ok {
					return false, why
				}
			}
			return true, ""
		case *ssa.UnOp:
			if x.Op == token.MUL {
				switch x.X.(type) {
				case *ssa.Alloc, *ssa.FreeVar:
					st := ir.StoresTo(x.X)
					if len(st) == 0 {
						return false, "variable without a visible assignment"
					}
					for _, sv := range st {
						if ok, why := accepted(sv, seen, d+1); !ok {
							return false, why
						}
					}
					return true, ""
				}
			}
		case *ssa.Parameter:
			f := x.Parent()
			idx := -1
			for k, q := range f.Params {
				if q == x {
					idx = k
				}
			}
			var sites []ssa.CallInstruction
			for _, cs := range e.callSitesAll(f) {
				if cs.Parent() != nil && cs.Parent().Synthetic == "" { // not the compiler's wrappers
					sites = append(sites, cs)
				}
			}
			// the receiver of a method reached through an interface (sort.Interface): every
			// value of the receiver's type that is turned into an interface in the repository
			var boxed []ssa.Value
			if idx == 0 && f.Signature.Recv() != nil {
				for _, g := range e.RepoFuncsSorted() {
					if g.Synthetic != "" {
						continue
					}
					for _, b := range g.Blocks {
						for _, in := range b.Instrs {
							if mi, ok := in.(*ssa.MakeInterface); ok && types.Identical(mi.X.Type(), x.Type()) {
								boxed = append(boxed, mi.X)
							}
						}
					}
				}
			}
			if (len(sites) == 0 && len(boxed) == 0) || idx < 0 {
				return false, "parameter of " + ShortFn(f) + " (no call site in the repository)"
			}
			for _, bv := range boxed {
				if ok, why := accepted(bv, seen, d+1); !ok {
					return false, why
				}
			}
			for _, cs := range sites {
				args := cs.Common().Args
				if cs.Common().IsInvoke() || idx >= len(args) {
					return false, "call site of another shape at " + e.InstrPos(cs)
				}
				if ok, why := accepted(args[idx], seen, d+1); !ok {
					return false, why
				}
			}
			return true, ""
		case *ssa.Call:
			// a copy of the whole list: append([]string(nil), files...), slices.Clone(files)
			if bi, isB := x.Call.Value.(*ssa.Builtin); isB && bi.Name() == "append" && len(x.Call.Args) == 2 {
				if ok0, _ := accepted(x.Call.Args[0], seen, d+1); ok0 {
					return accepted(x.Call.Args[1], seen, d+1)
				}
			}
			if ir.IsCallTo(&x.Call, "slices.Clone") && len(x.Call.Args) == 1 {
				return accepted(x.Call.Args[0], seen, d+1)
			}
			g := x.Call.StaticCallee()
			if g == nil || !e.P.Funcs[g] || g.Blocks == nil {
				return false, "list produced by " + ir.CalleeName(&x.Call) + " at " + e.InstrPos(x)
			}
			for _, b := range g.Blocks {
				rt, ok := b.Instrs[len(b.Instrs)-1].(*ssa.Return)
				if !ok || len(rt.Results) == 0 || !e.Facts(g).Reachable(b) {
					continue
				}
				if ok, why := accepted(rt.Results[0], seen, d+1); !ok {
					return false, why
				}
			}
			return true, ""
		case *ssa.MakeSlice, *ssa.Alloc:
			return false, "a freshly built list at " + e.InstrPos(v.(ssa.Instruction))
		}
		if in, ok := v.(ssa.Instruction); ok {
			return false, sprintf("list computed at %s (%T %s in %s)", e.InstrPos(in), v, v.String(), ShortFn(in.Parent()))
		}
		return false, "list of unknown origin"
	}
	for _, f := range e.RepoFuncsSorted() {
		if rootFn(f).Package() != sp || f.Synthetic != "" {
			continue
		}
		seenBase := map[ssa.Value]bool{}
		for _, b := range f.Blocks {
			for _, in := range b.Instrs {
				ia, ok := in.(*ssa.IndexAddr)
				if !ok || !isStrSlice(ia.X.Type()) {
					continue
				}
				base := ir.Resolve(ia.X)
				if seenBase[base] {
					continue
				}
				seenBase[base] = true
				ok2, why := accepted(ia.X, map[ssa.Value]bool{}, 0)
				var facts []string
				if why != "" {
					facts = append(facts, why)
				}
				r.Check(ok2, ShortFn(rootFn(f))+": the indexed list of run files is a complete glob result (or a prefix of it)", e.InstrPos(ia),
					"the history store walks / sorts a list of run files that was narrowed by name before the files were looked at: after a crash inside the compaction (complete original next to an empty twin) the acknowledged record is hidden", facts...)
			}
		}
	}
}

// boundTargets: the methods a compiler-made wrapper ($bound, $thunk) forwards to.
func boundTargets(w *ssa.Function) []*ssa.Function {
	if w.Synthetic == "" {
		return nil
	}
	var out []*ssa.Function
	for _, ci := range ir.CallsIn(w, func(c *ssa.CallCommon) bool { return c.StaticCallee() != nil }) {
		out = append(out, ci.Common().StaticCallee())
	}
	return out
}
