package rules

import (
	"go/constant"
	"go/token"
	"go/types"
	"regexp"
	"sort"
	"strings"

	"golang.org/x/tools/go/ssa"

	"bdcheck/internal/ir"
	"bdcheck/internal/load"
)

const dagRel = "internal/dag"

func init() {
	register(&Prop{ID: "C13", Run: runC13, NeedDeps: true,
		Technique: "static analysis (whole program, dependencies included): nil-safety obligations on go/ssa (decoded-pointer sources, nil-inflow phis, errors.As failure edge, never-assigned fields) with per-parameter summaries to a fixed point; constant/table agreement; dominance guards of validity writes",
		Decided: []string{
			"the raw document reaches mapstructure's struct decoder only after a key checker of the package (range over interface-keyed maps, comma-ok assertion to string, error, recursion) returned nil on it (C13.decode-keys-checked, F31)",
			"in the third-party functions the loader packages reach through static calls (depth 3), a strings.Index-like result used as a slice bound or index is tested or implied non-negative on every way there, or every repository caller closes the open way (C13.lib-index-checked)",
			"pointers that come out of the decoded definition (pointer fields, elements of []*stepDef/[]*funcDef/[]*conditionDef) are dereferenced only under a dominating non-nil test, also across calls (C13.nil-decoded)",
			"a pointer whose phi has a nil inflow is not dereferenced without a test (C13.nil-phi)",
			"no interface/func field that has no writer anywhere is invoked (C13.never-assigned)",
			"a pointer filled by errors.As is used only on the call's true edge (C13.as-failure)",
			"the value result of a (value, error) call in the loader / pattern packages is stored, passed on or dereferenced only where that error is known nil or the value non-nil (C13.value-before-err)",
			"a constant index into the result of strings.Split*/Fields* is within what the splitter guarantees or under a length test of that slice (C13.const-index)",
			"no single-result type assertion on decoded values in the loader packages (C13.assert-ok); submatch indices ≤ groups of the constant pattern (C13.submatch)",
			"the executor-config normaliser descends into both container kinds yaml.v2 produces, map[any]any and []any (C13.serialisable); SyncMap keys are strings",
			"signalOnStop is stored only when SignalNum of that same value is non-zero; Schedule values only from expressions the cron parser accepted; a step only after its validator returned nil; a DAG only when the error list is empty and every builder error is added to it (C13.validity)",
			"every struct type of the loader package reachable from dag.Step (fields, pointers, slices, maps; types that encode themselves excepted) has exported fields only: a step rebuilt from the run's record is the step that was loaded (C13.recorded-step-is-plain-data)",
		},
		NotDec: []string{
			"termination and resource bounds of yaml / mapstructure / regexp",
			"index and slice expressions whose safety needs value reasoning (length equalities, SplitN cardinality) — listed in the evidence for information only",
			"panics inside dependencies other than the untested-search-result class (C13.lib-index-checked), and anything they do beyond static calls of depth 3; that an accepted DAG can really be executed beyond these validity facts",
		},
	})
}

type c13 struct {
	e        *Env
	defTypes map[string]bool // named struct types of the decoded definition
	scope    map[*ssa.Function]bool
	derefMem map[*ssa.Parameter]int // 0 unknown 1 derefs unchecked 2 safe
}

func runC13(e *Env) {
	c := &c13{e: e, defTypes: map[string]bool{}, scope: map[*ssa.Function]bool{}, derefMem: map[*ssa.Parameter]int{}}
	c.collectDefTypes()
	c.collectScope()
	c.nilRules()
	c.neverAssigned()
	c.asFailure()
	c.assertOK()
	c.valueBeforeErr()
	c.constIndex()
	c.libIndexChecked()
	c.submatch()
	c.serialisable()
	c.validity()
	c13DecodeKeysChecked(e)
	c13StepIsPlainData(e, "C13.recorded-step-is-plain-data")
}

func (c *c13) collectDefTypes() {
	sp := c.e.P.Pkg(dagRel)
	if sp == nil {
		return
	}
	root := sp.Type("definition")
	if root == nil {
		return
	}
	var visit func(t types.Type)
	visit = func(t types.Type) {
		switch x := t.(type) {
		case *types.Pointer:
			visit(x.Elem())
		case *types.Slice:
			visit(x.Elem())
		case *types.Named:
			if x.Obj().Pkg() == nil || x.Obj().Pkg() != sp.Pkg {
				return
			}
			if st, ok := x.Underlying().(*types.Struct); ok {
				n := x.Obj().Pkg().Path() + "." + x.Obj().Name()
				if c.defTypes[n] {
					return
				}
				c.defTypes[n] = true
				for i := 0; i < st.NumFields(); i++ {
					visit(st.Field(i).Type())
				}
			}
		}
	}
	visit(root.Type())
}

func (c *c13) collectScope() {
	e := c.e
	for _, f := range e.RepoFuncsSorted() {
		p := ShortFn(rootFn(f))
		if strings.HasPrefix(p, "internal/dag.") || strings.HasPrefix(p, "(*internal/dag.") || strings.HasPrefix(p, "(internal/dag.") ||
			strings.HasPrefix(p, "internal/patternutil.") {
			c.scope[f] = true
		}
	}
}

func isPtr(t types.Type) bool {
	_, ok := t.Underlying().(*types.Pointer)
	return ok
}

// maybeNil classifies a pointer value: "" when not a tracked source.
func (c *c13) maybeNil(v ssa.Value) string {
	if !isPtr(v.Type()) {
		return ""
	}
	switch x := v.(type) {
	case *ssa.UnOp:
		if x.Op != token.MUL {
			return ""
		}
		switch a := x.X.(type) {
		case *ssa.FieldAddr:
			if c.defTypes[ir.NamedType(a.X.Type())] {
				return "decoded pointer field " + ir.FieldNameOf(a.X.Type(), a.Field)
			}
		case *ssa.IndexAddr:
			if sl, ok := a.X.Type().Underlying().(*types.Slice); ok && isPtr(sl.Elem()) && c.defTypes[ir.NamedType(sl.Elem())] {
				return "element of decoded " + sl.String()
			}
		}
	case *ssa.Field:
		if c.defTypes[ir.NamedType(x.X.Type())] {
			return "decoded pointer field " + ir.FieldNameOf(x.X.Type(), x.Field)
		}
	case *ssa.Phi:
		for _, ed := range x.Edges {
			if ir.IsNilConst(ed) {
				return "pointer with a nil inflow (" + x.Comment + ")"
			}
		}
	}
	return ""
}

// guarded: the use is dominated by a non-nil test of v (same value or same access path).
func (c *c13) guarded(use ssa.Instruction, v ssa.Value) bool {
	e := c.e
	vp, vok := e.C.PathOf(v)
	return HasNilCmp(e.DCS(use), func(x ssa.Value) bool {
		if ir.Resolve(x) == ir.Resolve(v) {
			return true
		}
		if !vok {
			return false
		}
		xp, ok := e.C.PathOf(x)
		return ok && SameValue(xp.Root, vp.Root) && xp.Dotted() == vp.Dotted()
	}, true)
}

// derefsUnchecked: the function dereferences its parameter (or passes it on to
// a function that does) at a point not dominated by a nil test of it.
func (c *c13) derefsUnchecked(p *ssa.Parameter, depth int) bool {
	if m := c.derefMem[p]; m != 0 {
		return m == 1
	}
	c.derefMem[p] = 2
	if !isPtr(p.Type()) || depth > 5 {
		return false
	}
	res := false
	for _, ref := range *p.Referrers() {
		if c.isDeref(ref, p) && !c.guarded(ref, p) {
			res = true
		}
		if ci, ok := ref.(ssa.CallInstruction); ok && !c.guarded(ref, p) {
			if sc := ci.Common().StaticCallee(); sc != nil && sc.Blocks != nil {
				for i, a := range ci.Common().Args {
					if a == ssa.Value(p) && i < len(sc.Params) && c.derefsUnchecked(sc.Params[i], depth+1) {
						res = true
					}
				}
			}
		}
	}
	if res {
		c.derefMem[p] = 1
	}
	return res
}

func (c *c13) isDeref(in ssa.Instruction, v ssa.Value) bool {
	switch x := in.(type) {
	case *ssa.FieldAddr:
		return x.X == v
	case *ssa.UnOp:
		return x.Op == token.MUL && x.X == v
	case *ssa.Store:
		return x.Addr == v
	case *ssa.IndexAddr:
		return x.X == v // pointer to array
	}
	return false
}

func (c *c13) nilRules() {
	e, r := c.e, c.e.R
	r.Rule("C13.nil-decoded", "NIL", "decoded pointers dereferenced only under a non-nil test", 5)
	type item struct {
		rule, cons, pos, why string
		ok                   bool
	}
	var decoded, phis []item
	var fns []*ssa.Function
	for f := range c.scope {
		fns = append(fns, f)
	}
	sort.Slice(fns, func(i, j int) bool { return fns[i].Pos() < fns[j].Pos() })
	for _, f := range fns {
		seen := map[string]bool{}
		for _, b := range f.Blocks {
			for _, in := range b.Instrs {
				v, ok := in.(ssa.Value)
				if !ok {
					continue
				}
				kind := c.maybeNil(v)
				if kind == "" {
					continue
				}
				for _, ref := range *v.Referrers() {
					var what string
					switch {
					case c.isDeref(ref, v):
						what = "dereferenced"
					default:
						if ci, ok := ref.(ssa.CallInstruction); ok {
							if sc := ci.Common().StaticCallee(); sc != nil && sc.Blocks != nil {
								for i, a := range ci.Common().Args {
									if a == v && i < len(sc.Params) && c.derefsUnchecked(sc.Params[i], 0) {
										what = "passed to " + shortName(sc) + " which dereferences it"
									}
								}
							}
						}
					}
					if what == "" {
						continue
					}
					ok := c.guarded(ref, v)
					desc := e.C.Render(v)
					desc = tmpName.ReplaceAllString(desc, "_")
					cons := shortName(f) + ": " + kind + " " + what
					if p, okp := e.C.PathOf(v); okp {
						cons = shortName(f) + ": " + p.Dotted() + " (" + kind + ") " + what
					}
					dk := sprintf("%s|%v", cons, ok)
					if seen[dk] {
						continue
					}
					seen[dk] = true
					it := item{cons: cons, pos: e.InstrPos(ref), ok: ok,
						why: "a null / missing entry in the definition makes this a nil pointer dereference: loading the file panics instead of returning an error (server, scheduler daemon and CLI crash)"}
					if strings.HasPrefix(kind, "pointer with a nil inflow") {
						phis = append(phis, it)
					} else {
						decoded = append(decoded, it)
					}
				}
			}
		}
	}
	for _, it := range decoded {
		r.Check(it.ok, it.cons, it.pos, it.why)
	}
	r.Rule("C13.nil-phi", "NIL", "pointers with a nil inflow dereferenced only under a test", 0)
	for _, it := range phis {
		r.Check(it.ok, it.cons, it.pos, "on some path this pointer is still nil when it is dereferenced (unhandled case leaves the initial nil): loading the file panics")
	}
	if len(phis) == 0 {
		r.OK("no pointer with a nil inflow is dereferenced in the loader packages", "-", "")
	}
}

func (c *c13) neverAssigned() {
	e, r := c.e, c.e.R
	r.Rule("C13.never-assigned", "WMW", "no invoked interface/func field without a writer", 1)
	// all field stores in the repository, by struct type + field
	written := map[string]bool{}
	for f := range e.P.Funcs {
		for _, b := range f.Blocks {
			for _, in := range b.Instrs {
				if st, ok := in.(*ssa.Store); ok {
					if fa, ok := st.Addr.(*ssa.FieldAddr); ok {
						written[ir.NamedType(fa.X.Type())+"."+ir.FieldNameOf(fa.X.Type(), fa.Field)] = true
					}
				}
			}
		}
	}
	n := 0
	seen := map[string]bool{}
	var fns []*ssa.Function
	for f := range c.scope {
		fns = append(fns, f)
	}
	sort.Slice(fns, func(i, j int) bool { return fns[i].Pos() < fns[j].Pos() })
	for _, f := range fns {
		for _, b := range f.Blocks {
			for _, in := range b.Instrs {
				ci, ok := in.(ssa.CallInstruction)
				if !ok {
					continue
				}
				var recv ssa.Value
				if ci.Common().IsInvoke() {
					recv = ci.Common().Value
				} else if _, isFn := ci.Common().Value.Type().Underlying().(*types.Signature); isFn && ci.Common().StaticCallee() == nil {
					recv = ci.Common().Value
				}
				if recv == nil {
					continue
				}
				u, ok := recv.(*ssa.UnOp)
				if !ok || u.Op != token.MUL {
					continue
				}
				fa, ok := u.X.(*ssa.FieldAddr)
				if !ok || !strings.Contains(ir.NamedType(fa.X.Type()), "blackdagger") {
					continue
				}
				key := ir.NamedType(fa.X.Type()) + "." + ir.FieldNameOf(fa.X.Type(), fa.Field)
				n++
				if seen[key] {
					continue
				}
				seen[key] = true
				short := key[strings.LastIndex(key, "/")+1:]
				r.Check(written[key] || c.guarded(in, recv), "field "+short+" is assigned somewhere before being invoked", e.InstrPos(in),
					"this interface/func field is invoked but nothing in the program ever assigns it: the call is a nil dereference whenever this path is taken")
			}
		}
	}
	if n == 0 {
		r.Unknown("invoked fields in the loader packages", "-", "no invocation through a struct field found (scope not recognised)")
	}
}

func (c *c13) asFailure() {
	e, r := c.e, c.e.R
	r.Rule("C13.as-failure", "NIL", "errors.As target used only on the true edge", 1)
	n := 0
	for _, f := range e.RepoFuncsSorted() {
		for _, ci := range ir.CallsIn(f, func(cc *ssa.CallCommon) bool { return ir.IsCallTo(cc, "errors.As") }) {
			call, ok := ci.(*ssa.Call)
			if !ok {
				continue
			}
			// target: &x passed as interface
			tgt := ci.Common().Args[1]
			if mi, ok := tgt.(*ssa.MakeInterface); ok {
				tgt = mi.X
			}
			al, ok := tgt.(*ssa.Alloc)
			if !ok || !isPtr(deref(al.Type())) {
				continue
			}
			n++
			okAll := true
			var badPos string
			for _, ref := range *al.Referrers() {
				ld, ok := ref.(*ssa.UnOp)
				if !ok || ld.Op != token.MUL || !ir.Precedes(call, ld) && ld.Block() == call.Block() {
					continue
				}
				for _, use := range *ld.Referrers() {
					isUse := c.isDeref(use, ld)
					if uc, ok := use.(ssa.CallInstruction); ok {
						for _, a := range uc.Common().Args {
							if a == ssa.Value(ld) {
								isUse = true
							}
						}
					}
					if !isUse {
						continue
					}
					if !HasVal(e.DCS(use), func(x ssa.Value) bool { return ir.Resolve(x) == ssa.Value(call) }, true) {
						okAll = false
						badPos = e.InstrPos(use)
					}
				}
			}
			pos := e.InstrPos(ci)
			if badPos != "" {
				pos = badPos
			}
			r.Check(okAll, shortName(f)+": errors.As target used only when As returned true", pos,
				"the pointer that errors.As would have filled is used on the path where As returned false: it is still nil there")
		}
	}
	if n == 0 {
		r.Unknown("errors.As call sites", "-", "none found")
	}
}

func deref(t types.Type) types.Type {
	if p, ok := t.Underlying().(*types.Pointer); ok {
		return p.Elem()
	}
	return t
}

func (c *c13) assertOK() {
	e, r := c.e, c.e.R
	r.Rule("C13.assert-ok", "count 0", "no single-result type assertion in the loader packages", 0)
	n := 0
	var fns []*ssa.Function
	for f := range c.scope {
		fns = append(fns, f)
	}
	sort.Slice(fns, func(i, j int) bool { return fns[i].Pos() < fns[j].Pos() })
	for _, f := range fns {
		if strings.Contains(ShortFn(rootFn(f)), "SyncMap)") {
			continue // keys of the shared output map are governed by C13.syncmap-keys
		}
		for _, b := range f.Blocks {
			for _, in := range b.Instrs {
				ta, ok := in.(*ssa.TypeAssert)
				if !ok || ta.CommaOk {
					continue
				}
				// values taken back out of a typed container idiom (sync.Map, context
				// values) are not decoded data: what was stored there is the program's own
				if c.fromOwnContainer(ta.X) {
					continue
				}
				// a type switch lowers to comma-ok asserts; a plain x.(T) does not
				// accepted: dominated by a successful comma-ok assertion of the same value to the same type
				okDom := false
				for _, l := range e.DCS(ta) {
					if l.Kind == "val" && l.Pol {
						if ex, isE := ir.Resolve(l.V).(*ssa.Extract); isE && ex.Index == 1 {
							if t2, isT := ex.Tuple.(*ssa.TypeAssert); isT && t2.X == ta.X && types.Identical(t2.AssertedType, ta.AssertedType) {
								okDom = true
							}
						}
					}
				}
				n++
				r.Check(okDom, shortName(f)+": "+e.C.Render(ta.X)+".("+ta.AssertedType.String()+") without comma-ok", e.InstrPos(ta),
					"a value from the untyped definition tree is asserted to a type without the comma-ok form: any other YAML type at this place panics the loader")
			}
		}
	}
	if n == 0 {
		r.OK("no single-result type assertion in packages dag / patternutil", "-", "expected count is zero; the thorough tier checks a positive example in the variant suite")
	}
}

// constIndex: a constant index into the result of a string splitter needs the
// length the splitter does not guarantee. strings.Split / SplitN / SplitAfter
// with a non-empty separator return at least one element (index 0 is always
// safe); strings.Fields / FieldsFunc may return none. Any higher index must be
// dominated by a length test of that same slice.
func (c *c13) constIndex() {
	e, r := c.e, c.e.R
	r.Rule("C13.const-index", "DCS", "constant index into a splitter's result is covered by the splitter's guarantee or a length test", 1)
	// the loader packages and the repository helpers they call (internal/util's
	// command splitters run for every step of every load)
	inScope := map[*ssa.Function]bool{}
	for f := range c.scope {
		inScope[f] = true
		for _, g := range e.staticClosure(f) {
			if e.P.Funcs[g] {
				inScope[g] = true
			}
		}
	}
	var fns []*ssa.Function
	for f := range inScope {
		fns = append(fns, f)
	}
	sort.Slice(fns, func(i, j int) bool {
		if fns[i].Pos() != fns[j].Pos() {
			return fns[i].Pos() < fns[j].Pos()
		}
		return fns[i].String() < fns[j].String()
	})
	producer := func(v ssa.Value) (guaranteed int64, name string, ok bool) {
		call, isC := ir.Resolve(v).(*ssa.Call)
		if !isC {
			return 0, "", false
		}
		n := ir.CalleeName(&call.Call)
		switch n {
		case "strings.Split", "strings.SplitAfter":
			if sep, isS := ir.ConstString(call.Call.Args[1]); isS && sep != "" {
				return 1, n, true
			}
			return 0, n, true
		case "strings.SplitN", "strings.SplitAfterN":
			sep, isS := ir.ConstString(call.Call.Args[1])
			cnt, isK := ir.ConstInt(call.Call.Args[2])
			if isS && sep != "" && isK && cnt != 0 {
				return 1, n, true
			}
			return 0, n, true
		case "strings.Fields", "strings.FieldsFunc":
			return 0, n, true
		}
		return 0, "", false
	}
	n := 0
	for _, f := range fns {
		for _, b := range f.Blocks {
			for _, in := range b.Instrs {
				var base, idx ssa.Value
				switch x := in.(type) {
				case *ssa.IndexAddr:
					base, idx = x.X, x.Index
				case *ssa.Index:
					base, idx = x.X, x.Index
				case *ssa.Slice:
					// pieces[k:] needs k <= len: as index k-1
					if x.Low == nil {
						continue
					}
					if lk, isK := ir.ConstInt(x.Low); isK && lk > 0 {
						base, idx = x.X, ssa.NewConst(constant.MakeInt64(lk-1), types.Typ[types.Int])
					} else {
						continue
					}
				default:
					continue
				}
				k, isK := ir.ConstInt(idx)
				if !isK || k < 0 {
					continue
				}
				g, name, isP := producer(base)
				if !isP {
					continue
				}
				n++
				// the least length the pieces can have here: the splitter's guarantee,
				// raised by the dominating length tests (c < len, c <= len, len == c, and
				// len != c when c is the current minimum)
				lo := g
				var excluded []int64
				for _, l := range e.DCS(in) {
					if l.Kind != "cmp" {
						continue
					}
					lx, xIsLen := lenArg(l.X)
					ly, yIsLen := lenArg(l.Y)
					xIsLen = xIsLen && ir.Resolve(lx) == ir.Resolve(base)
					yIsLen = yIsLen && ir.Resolve(ly) == ir.Resolve(base)
					switch {
					case yIsLen:
						cst, isC := ir.ConstInt(l.X)
						if !isC {
							continue
						}
						switch l.Op {
						case token.LSS:
							if cst+1 > lo {
								lo = cst + 1
							}
						case token.LEQ, token.EQL:
							if cst > lo {
								lo = cst
							}
						case token.NEQ:
							excluded = append(excluded, cst)
						}
					case xIsLen:
						cst, isC := ir.ConstInt(l.Y)
						if !isC {
							continue
						}
						switch l.Op {
						case token.EQL:
							if cst > lo {
								lo = cst
							}
						case token.NEQ:
							excluded = append(excluded, cst)
						}
					}
				}
				for changed := true; changed; {
					changed = false
					for _, x := range excluded {
						if x == lo {
							lo++
							changed = true
						}
					}
				}
				ok := k < lo
				r.Check(ok, shortName(f)+": index "+sprintf("%d", k)+" of "+name+"(…) is within what the splitter guarantees or a dominating length test", e.InstrPos(in),
					"a fixed index into the pieces of a split string is not covered by a length test: an input without the expected separator panics the loader with an index out of range", e.FactsStr("dominating conditions: ", e.DCS(in)))
			}
		}
	}
	if n == 0 {
		r.OK("no constant index into a string splitter's result in the loader packages", "-", "")
	}
}

// fromOwnContainer: every source of v is the result of a sync.Map / context
// lookup (values the program itself stored), not the decoded tree.
func (c *c13) fromOwnContainer(v ssa.Value) bool {
	fl := &ir.Flow{C: c.e.C, Source: func(x ssa.Value) bool {
		call, ok := x.(*ssa.Call)
		if !ok {
			return false
		}
		if ir.IsCallTo(&call.Call, "(*sync.Map).Load", "(*sync.Map).LoadOrStore", "(*sync.Map).LoadAndDelete", "(*sync.Map).Swap") {
			return true
		}
		return call.Call.IsInvoke() && call.Call.Method.Name() == "Value" && ir.NamedType(call.Call.Value.Type()) == "context.Context"
	}}
	return fl.All(v)
}

// valueBeforeErr: the value result of a `(v, err)` call is put to use (stored,
// handed to another call, dereferenced) only where the call's error is known to
// be nil or the value is known to be non-nil. A value that is only returned
// together with the same call's error is the caller's problem and not a use.
func (c *c13) valueBeforeErr() {
	e, r := c.e, c.e.R
	r.Rule("C13.value-before-err", "DCS", "the value of a (value, error) call is used only under err == nil", 5)
	var fns []*ssa.Function
	for f := range c.scope {
		fns = append(fns, f)
	}
	sort.Slice(fns, func(i, j int) bool { return fns[i].Pos() < fns[j].Pos() })
	nilable := func(t types.Type) bool {
		switch t.Underlying().(type) {
		case *types.Pointer, *types.Interface, *types.Map, *types.Signature, *types.Chan:
			return true
		}
		return false
	}
	for _, f := range fns {
		for _, b := range f.Blocks {
			for _, in := range b.Instrs {
				call, ok := in.(*ssa.Call)
				if !ok {
					continue
				}
				tup, ok := call.Type().(*types.Tuple)
				if !ok || tup.Len() != 2 || !ir.IsErrorType(tup.At(1).Type()) || !nilable(tup.At(0).Type()) {
					continue
				}
				var val, errv *ssa.Extract
				for _, ref := range *call.Referrers() {
					if ex, ok := ref.(*ssa.Extract); ok {
						if ex.Index == 0 {
							val = ex
						} else {
							errv = ex
						}
					}
				}
				if val == nil || val.Referrers() == nil || len(*val.Referrers()) == 0 {
					continue
				}
				if errv != nil && (errv.Referrers() == nil || len(*errv.Referrers()) == 0) {
					errv = nil // `v, _ := f()`: the error is discarded
				}
				okAll := true
				var badUse ssa.Instruction
				uses := 0
				if errv == nil && c.errCannotHappen(f, call) {
					continue
				}
				for _, us := range c.usesVia(val, 0, nil) {
					u := us.in
					if _, isRet := u.(*ssa.Return); isRet {
						continue // handed to the caller together with (or instead of) the error
					}
					uses++
					lits := append(append([]ir.NLit{}, e.DCS(u)...), us.lits...)
					safe := HasNilCmp(lits, func(x ssa.Value) bool { return ir.Resolve(x) == ssa.Value(val) }, true)
					if errv != nil {
						for _, l := range lits {
							if l.Kind == "cmp" && l.Op == token.EQL && ir.IsNilConst(l.Y) && ir.Resolve(l.X) == ssa.Value(errv) {
								safe = true
							}
						}
					}
					// a plain store / hand-over into an object under construction is the
					// "assign both, then propagate the error" idiom: fine when every way on
					// from the use either has this error nil or returns it. Not for dereferences and
					// not for values that escape into package-level state, which outlives
					// the failing call.
					if !safe && errv != nil && !c.strictUse(u, val) {
						bad, _ := ir.Bypass(u, nil, ir.PathQuery{
							// the branch on which this error is nil is the safe side; every
							// other way on must end in a return that carries the error
							SkipEdge: func(from *ssa.BasicBlock, idx int) bool {
								i, ok := from.Instrs[len(from.Instrs)-1].(*ssa.If)
								if !ok {
									return false
								}
								n := ir.Normalize(ir.Lit{Cond: i.Cond, Pol: idx == 0})
								return n.Kind == "cmp" && n.Op == token.EQL && ir.IsNilConst(n.Y) && ir.Resolve(n.X) == ssa.Value(errv)
							},
							Bad: func(in ssa.Instruction) bool {
								rt, ok := in.(*ssa.Return)
								if !ok {
									return false
								}
								nres := len(rt.Results)
								if nres == 0 {
									return true
								}
								fl := &ir.Flow{C: e.C, Source: func(x ssa.Value) bool { return x == ssa.Value(errv) }}
								for _, rv := range RetVals(rt, nres-1) {
									if fl.Any(rv) {
										return false
									}
								}
								return true
							},
						})
						safe = bad == nil
					}
					if !safe {
						okAll = false
						if badUse == nil {
							badUse = u
						}
					}
				}
				if uses == 0 {
					continue
				}
				pos := e.InstrPos(call)
				var facts []string
				if badUse != nil {
					pos = e.InstrPos(badUse)
					facts = append(facts, "use: "+badUse.String(), e.FactsStr("dominating conditions: ", e.DCS(badUse)))
				}
				r.Check(okAll, shortName(f)+": result of "+shortCallee(&call.Call)+" used only after its error was seen to be nil", pos,
					"the value result of a call that also returns an error is stored, passed on or dereferenced on a path where the error may be non-nil (the value is then nil or meaningless): an input that makes the call fail panics later or is silently accepted", facts...)
			}
		}
	}
}

// strictUse: the use dereferences the value or lets it escape into
// package-level state.
func (c *c13) strictUse(u ssa.Instruction, val ssa.Value) bool {
	isGlobal := func(v ssa.Value) bool {
		for d := 0; d < 6 && v != nil; d++ {
			switch x := v.(type) {
			case *ssa.Global:
				return true
			case *ssa.UnOp:
				v = x.X
			case *ssa.FieldAddr:
				v = x.X
			case *ssa.IndexAddr:
				v = x.X
			case *ssa.Field:
				v = x.X
			default:
				return false
			}
		}
		return false
	}
	switch x := u.(type) {
	case *ssa.FieldAddr, *ssa.Field, *ssa.IndexAddr, *ssa.Index, *ssa.Lookup, *ssa.UnOp, *ssa.TypeAssert, *ssa.Range, *ssa.Slice:
		return true // dereference
	case *ssa.Store:
		return isGlobal(x.Addr)
	case *ssa.MapUpdate:
		return isGlobal(x.Map)
	case ssa.CallInstruction:
		cc := x.Common()
		if cc.IsInvoke() {
			return true // method call on the value / through an interface holding it
		}
		for i, a := range cc.Args {
			if isGlobal(a) {
				return true
			}
			// the value as receiver of a method: dereference
			if i == 0 && cc.Signature().Recv() != nil && ir.Resolve(a) == ir.Resolve(val) {
				return true
			}
		}
	}
	return false
}

// errCannotHappen: the one accepted "error discarded" site, by name, with the reason.
func (c *c13) errCannotHappen(f *ssa.Function, call *ssa.Call) bool {
	// dag.decode: mapstructure.NewDecoder fails only when DecoderConfig.Result is not a
	// pointer; decode passes `new(definition)`.
	if !strings.HasSuffix(ir.CalleeName(&call.Call), "mapstructure.NewDecoder") || len(call.Call.Args) != 1 {
		return false
	}
	// (checked on the call itself, wherever it is made: the configuration is a
	// literal whose Result field is given a pointer)
	al, ok := ir.Resolve(call.Call.Args[0]).(*ssa.Alloc)
	if !ok {
		return false
	}
	for _, ref := range *al.Referrers() {
		fa, isFA := ref.(*ssa.FieldAddr)
		if !isFA || ir.FieldNameOf(fa.X.Type(), fa.Field) != "Result" {
			continue
		}
		for _, r2 := range *fa.Referrers() {
			if st, isS := r2.(*ssa.Store); isS && st.Addr == ssa.Value(fa) {
				v := ir.Resolve(st.Val)
				if mi, isMI := v.(*ssa.MakeInterface); isMI {
					v = ir.Resolve(mi.X)
				}
				if _, isP := v.Type().Underlying().(*types.Pointer); isP {
					return true
				}
			}
		}
	}
	return false
}

// uses lists the instructions that put v to use, looking through phis,
// conversions and interface boxing.
func (c *c13) uses(v ssa.Value, depth int) []ssa.Instruction {
	var out []ssa.Instruction
	for _, u := range c.usesVia(v, depth, nil) {
		out = append(out, u.in)
	}
	return out
}

// useSite is a use of a value together with the conditions of the φ-edges the
// value travelled over on its way there (`var x *T; if c { x, err = f(); if err
// != nil { return } }; use(x)`: the use sees f's result only over an edge on
// which err == nil).
type useSite struct {
	in   ssa.Instruction
	lits []ir.NLit
}

func (c *c13) usesVia(v ssa.Value, depth int, via []ir.NLit) []useSite {
	var out []useSite
	if v.Referrers() == nil || depth > 4 {
		return nil
	}
	for _, ref := range *v.Referrers() {
		switch x := ref.(type) {
		case *ssa.Phi:
			for k, ed := range x.Edges {
				if ed == v {
					out = append(out, c.usesVia(x, depth+1, append(append([]ir.NLit{}, via...), c.e.DCSPhiEdge(x.Block(), k)...))...)
				}
			}
		case *ssa.MakeInterface:
			out = append(out, c.usesVia(x, depth+1, via)...)
		case *ssa.ChangeType:
			out = append(out, c.usesVia(x, depth+1, via)...)
		case *ssa.ChangeInterface:
			out = append(out, c.usesVia(x, depth+1, via)...)
		case *ssa.Convert:
			out = append(out, c.usesVia(x, depth+1, via)...)
		case *ssa.DebugRef:
		case *ssa.BinOp:
			// comparisons (v == nil) are tests, not uses
		case *ssa.If:
		default:
			out = append(out, useSite{ref, via})
		}
	}
	return out
}

func (c *c13) submatch() {
	e, r := c.e, c.e.R
	r.Rule("C13.submatch", "AGR", "submatch index ≤ number of groups of the constant pattern", 1)
	n := 0
	var fns []*ssa.Function
	for f := range c.scope {
		fns = append(fns, f)
	}
	sort.Slice(fns, func(i, j int) bool { return fns[i].Pos() < fns[j].Pos() })
	for _, f := range fns {
		for _, ci := range ir.CallsIn(f, func(cc *ssa.CallCommon) bool {
			return ir.IsCallTo(cc, "(*regexp.Regexp).FindAllStringSubmatch", "(*regexp.Regexp).FindStringSubmatch")
		}) {
			call := ci.(*ssa.Call)
			// pattern
			pat := ""
			if rc, ok := ir.Resolve(ci.Common().Args[0]).(*ssa.Call); ok && ir.IsCallTo(&rc.Call, "regexp.MustCompile") {
				pat, _ = ir.ConstString(rc.Call.Args[0])
			}
			// a pattern compiled once into a package-level variable
			if u, ok := ci.Common().Args[0].(*ssa.UnOp); ok && pat == "" {
				if g, ok := u.X.(*ssa.Global); ok && g.Pkg != nil {
					rel := strings.TrimPrefix(g.Pkg.Pkg.Path(), load.ModulePath+"/")
					pat, _ = e.globalRegexp(rel, g.Name())
				}
			}
			if pat == "" {
				r.Unknown(shortName(f)+": pattern of the submatch call", e.InstrPos(ci), "not a constant")
				continue
			}
			re, err := regexp.Compile(pat)
			if err != nil {
				r.Bad(shortName(f)+": constant pattern compiles", e.InstrPos(ci), err.Error())
				continue
			}
			groups := re.NumSubexp()
			// constant indices into a match ([]string): IndexAddr on a []string derived from the call
			maxIdx := int64(-1)
			for _, b := range f.Blocks {
				for _, in := range b.Instrs {
					ia, ok := in.(*ssa.IndexAddr)
					if !ok || ia.X.Type().String() != "[]string" {
						continue
					}
					k, isC := ir.ConstInt(ia.Index)
					if !isC {
						continue
					}
					fl := &ir.Flow{C: e.C, Source: func(v ssa.Value) bool { return v == ssa.Value(call) }}
					if fl.Any(ia.X) && k > maxIdx {
						maxIdx = k
					}
				}
			}
			n++
			r.Check(maxIdx <= int64(groups), shortName(f)+": submatch indices within the pattern's groups", e.InstrPos(ci),
				sprintf("index %d is used on a submatch of a pattern with %d group(s): index out of range", maxIdx, groups))
		}
	}
	if n == 0 {
		r.Unknown("submatch call sites", "-", "none found")
	}
}

func (c *c13) serialisable() {
	e, r := c.e, c.e.R
	r.Rule("C13.serialisable", "SIB", "executor-config normaliser handles map[any]any and []any", 1)
	pe := e.Fn(dagRel, "parseExecutor")
	if pe == nil {
		return
	}
	// the normaliser: the function applied to step.ExecutorConfig.Config at the end of parseExecutor
	var norm *ssa.Function
	for _, ci := range ir.CallsIn(pe, func(cc *ssa.CallCommon) bool { return cc.StaticCallee() != nil && len(cc.Args) == 1 }) {
		if e.IsFieldRead(ci.Common().Args[0], nil, "ExecutorConfig.Config") {
			norm = ci.Common().StaticCallee()
		}
	}
	if norm == nil {
		r.Bad("parseExecutor: executor config normalised before it is stored", e.Pos(pe.Pos()),
			"the executor config (untyped YAML values) is not normalised: map[any]any values make the status unserialisable")
		return
	}
	asserted := map[string]bool{}
	seen := map[*ssa.Function]bool{}
	var visit func(f *ssa.Function)
	visit = func(f *ssa.Function) {
		if seen[f] || !e.P.Funcs[f] {
			return
		}
		seen[f] = true
		for _, b := range f.Blocks {
			for _, in := range b.Instrs {
				if ta, ok := in.(*ssa.TypeAssert); ok {
					asserted[ta.AssertedType.String()] = true
				}
				if ci, ok := in.(ssa.CallInstruction); ok {
					if sc := ci.Common().StaticCallee(); sc != nil {
						visit(sc)
					}
				}
			}
		}
		for _, a := range f.AnonFuncs {
			visit(a)
		}
	}
	visit(norm)
	hasMap := asserted["map[interface{}]interface{}"] || asserted["map[any]any"]
	hasList := asserted["[]interface{}"] || asserted["[]any"]
	r.Check(hasMap, shortName(norm)+": descends into map[any]any values", e.Pos(norm.Pos()), "nested YAML maps in an executor config stay map[any]any: encoding/json cannot serialise the status")
	r.Check(hasList, shortName(norm)+": descends into []any values", e.Pos(norm.Pos()),
		"nested YAML lists in an executor config are not descended into: a list of maps (e.g. headers: [{a: b}]) stays []any{map[any]any}, so the status of an accepted DAG cannot be JSON-encoded (never recorded, live status 500)")

	// SyncMap keys are strings
	r.Rule("C13.syncmap-keys", "DCS", "SyncMap.Store keys are strings", 2)
	var sites []ssa.CallInstruction
	for _, f := range e.RepoFuncsSorted() {
		for _, ci := range ir.CallsIn(f, func(cc *ssa.CallCommon) bool { return ir.IsCallTo(cc, "(*sync.Map).Store") }) {
			if fa, ok := ci.Common().Args[0].(*ssa.FieldAddr); ok && strings.HasSuffix(ir.NamedType(fa.X.Type()), "internal/dag.SyncMap") {
				sites = append(sites, ci)
			}
		}
	}
	for _, ci := range sites {
		if strings.HasPrefix(ShortFn(rootFn(ci.Parent())), "internal/test") {
			continue
		}
		k := ci.Common().Args[1]
		ok := false
		if mi, isMI := k.(*ssa.MakeInterface); isMI && mi.X.Type().Underlying().String() == "string" {
			ok = true
		}
		if !ok {
			// dominated by a successful comma-ok assertion of that value to string
			for _, l := range e.DCS(ci) {
				if l.Kind == "val" && l.Pol {
					if ex, isE := ir.Resolve(l.V).(*ssa.Extract); isE && ex.Index == 1 {
						if ta, isT := ex.Tuple.(*ssa.TypeAssert); isT && ta.X == k && ta.AssertedType.String() == "string" {
							ok = true
						}
					}
				}
			}
		}
		r.Check(ok, shortName(ci.Parent())+": SyncMap.Store key is a string", e.InstrPos(ci),
			"a non-string key in the shared output map makes SyncMap.MarshalJSON (k.(string)) panic when the status is serialised")
	}
}

func (c *c13) validity() {
	e, r := c.e, c.e.R
	r.Rule("C13.validity", "DCS/WMW", "accepted definitions carry only validated values", 5)
	// (1) SignalOnStop stored only under SignalNum(same value) != 0
	cSignalNameValid(e, func(f *ssa.Function) bool { return c.scope[f] })
	// (2) Schedule values only from parsed expressions: wherever the package fills a
	// Schedule's Expression, the same text was accepted by the cron parser (called
	// in place or through a helper of the package)
	{
		n := 0
		spd := e.P.Pkg(dagRel)
		for _, ps := range e.RepoFuncsSorted() {
			if spd == nil || rootFn(ps).Package() != spd {
				continue
			}
			for _, b := range ps.Blocks {
				for _, in := range b.Instrs {
					st, ok := in.(*ssa.Store)
					if !ok {
						continue
					}
					fa, ok := st.Addr.(*ssa.FieldAddr)
					if !ok || ir.FieldNameOf(fa.X.Type(), fa.Field) != "Expression" || !strings.HasSuffix(ir.NamedType(fa.X.Type()), "internal/dag.Schedule") {
						continue
					}
					n++
					alts := e.expandBound(e.DCS(st))
					okp := len(alts) > 0
					for _, alt := range alts {
						found := false
						for _, l := range alt {
							if l.Kind == "cmp" && l.Op == token.EQL && ir.IsNilConst(l.Y) {
								if ex, isE := ir.Resolve(l.X).(*ssa.Extract); isE && ex.Index == 1 {
									if pc, isC := ex.Tuple.(*ssa.Call); isC && ir.CalleeName(&pc.Call) == "(github.com/robfig/cron/v3.Parser).Parse" && ir.Deep(l.Val(pc.Call.Args[1])) == ir.Deep(st.Val) {
										found = true
									}
								}
							}
						}
						if !found {
							okp = false
						}
					}
					r.Check(okp, "parseSchedules: Schedule built only from an expression the cron parser accepted", e.InstrPos(st),
						"a schedule expression is accepted without (successfully) parsing that same expression")
				}
			}
		}
		if n == 0 {
			r.Unknown("parseSchedules: Schedule construction", dagRel, "no store to Schedule.Expression")
		}
	}
	// (3) the step constructor - the function of the package that returns (*Step,
	// error) and allocates the step - returns a step only after the step validator
	// (the callee that receives the step definition and returns just an error)
	// returned nil
	sp := e.P.Pkg(dagRel)
	resultIs := func(f *ssa.Function, i int, name string) bool {
		rs := f.Signature.Results()
		if rs.Len() != 2 || i >= rs.Len() {
			return false
		}
		pt, ok := rs.At(i).Type().(*types.Pointer)
		return ok && typesName(pt.Elem()) == name
	}
	isStepValidator := func(v ssa.Value) bool {
		c, ok := ir.Resolve(v).(*ssa.Call)
		if !ok {
			return false
		}
		g := c.Call.StaticCallee()
		if g == nil || sp == nil || rootFn(g).Package() != sp || g.Signature.Results().Len() != 1 || ir.NamedType(g.Signature.Results().At(0).Type()) != "error" {
			return false
		}
		for _, a := range c.Call.Args {
			if pt, ok := a.Type().(*types.Pointer); ok && typesName(pt.Elem()) == "stepDef" {
				return true
			}
		}
		return false
	}
	nBS := 0
	for _, bs := range e.RepoFuncsSorted() {
		if sp == nil || rootFn(bs).Package() != sp || bs.Parent() != nil || !resultIs(bs, 0, "Step") {
			continue
		}
		allocs := false
		for _, b := range bs.Blocks {
			for _, in := range b.Instrs {
				if al, ok := in.(*ssa.Alloc); ok && strings.HasSuffix(ir.NamedType(al.Type()), "internal/dag.Step") {
					allocs = true
				}
			}
		}
		if !allocs {
			continue
		}
		nBS++
		for _, b := range bs.Blocks {
			for _, in := range b.Instrs {
				rt, ok := in.(*ssa.Return)
				if !ok || !e.Facts(bs).Reachable(b) {
					continue
				}
				nonNil := false
				for _, v := range RetVals(rt, 0) {
					if !ir.IsNilConst(ir.Resolve(v)) {
						nonNil = true
					}
				}
				if !nonNil {
					continue
				}
				okv := false
				for _, l := range e.DCS(rt) {
					if l.Kind == "cmp" && l.Op == token.EQL && ir.IsNilConst(l.Y) && isStepValidator(l.X) {
						okv = true
					}
				}
				r.Check(okv, "buildStep: a step is returned only after assertStepDef(def)==nil", e.InstrPos(rt),
					"a step is accepted although its validator (name, something to execute) was not consulted or its error ignored")
			}
		}
	}
	if nBS == 0 {
		r.Unknown("the step constructor", dagRel, "no function of the package returns (*Step, error) and allocates the step")
	}
	// (4) the DAG constructor returns a DAG only when the error accumulator (the
	// field whose type collects errors with Add and is itself an error) is empty;
	// every field builder's error is added to it
	isAcc := func(t types.Type) bool {
		if pt, ok := t.(*types.Pointer); ok {
			t = pt.Elem()
		}
		nt, ok := t.(*types.Named)
		if !ok || nt.Obj().Pkg() == nil || sp == nil || nt.Obj().Pkg() != sp.Pkg {
			return false
		}
		ms := types.NewMethodSet(types.NewPointer(nt))
		return ms.Lookup(sp.Pkg, "Add") != nil && ms.Lookup(sp.Pkg, "Error") != nil
	}
	isAccRead := func(v ssa.Value) bool {
		v = ir.Resolve(v)
		if u, ok := v.(*ssa.UnOp); ok && u.Op == token.MUL {
			v = u.X
		}
		fa, ok := v.(*ssa.FieldAddr)
		return ok && isAcc(fa.Type())
	}
	nBD := 0
	for _, bd := range e.RepoFuncsSorted() {
		if sp == nil || rootFn(bd).Package() != sp || bd.Parent() != nil || !resultIs(bd, 0, "DAG") {
			continue
		}
		uses := false
		for _, b := range bd.Blocks {
			for _, in := range b.Instrs {
				if fa, ok := in.(*ssa.FieldAddr); ok && isAcc(fa.Type()) {
					uses = true
				}
			}
		}
		if !uses {
			continue
		}
		nBD++
		for _, b := range bd.Blocks {
			for _, in := range b.Instrs {
				rt, ok := in.(*ssa.Return)
				if !ok || !e.Facts(bd).Reachable(b) {
					continue
				}
				nonNil := false
				for _, v := range RetVals(rt, 0) {
					if !ir.IsNilConst(ir.Resolve(v)) {
						nonNil = true
					}
				}
				if !nonNil {
					continue
				}
				oke := false
				for _, l := range e.DCS(rt) {
					if l.Kind == "cmp" && (l.Op == token.LEQ || l.Op == token.EQL) {
						if k, isC := ir.ConstInt(l.Y); isC && k == 0 {
							if lc, isCall := ir.Resolve(l.X).(*ssa.Call); isCall {
								if bi, isB := lc.Call.Value.(*ssa.Builtin); isB && bi.Name() == "len" && isAccRead(lc.Call.Args[0]) {
									oke = true
								}
							}
						}
					}
				}
				r.Check(oke, "build: a DAG is returned only when the error list is empty", e.InstrPos(rt), "a DAG is returned although builder errors were collected")
			}
		}
	}
	if nBD == 0 {
		r.Unknown("the DAG constructor", dagRel, "no function of the package returns (*DAG, error) and consults an error accumulator")
	}
	// the field builders are called through a function value of a func() error type
	// of the package; a non-nil result is added to the accumulator
	nDyn := 0
	for _, f := range e.RepoFuncsSorted() {
		if sp == nil || rootFn(f).Package() != sp {
			continue
		}
		for _, b := range f.Blocks {
			for _, in := range b.Instrs {
				call, ok := in.(*ssa.Call)
				if !ok || call.Call.IsInvoke() || call.Call.StaticCallee() != nil {
					continue
				}
				if _, isB := call.Call.Value.(*ssa.Builtin); isB {
					continue
				}
				nt, ok := call.Call.Value.Type().(*types.Named)
				if !ok || nt.Obj().Pkg() != sp.Pkg {
					continue
				}
				sig, ok := nt.Underlying().(*types.Signature)
				if !ok || sig.Params().Len() != 0 || sig.Results().Len() != 1 || ir.NamedType(sig.Results().At(0).Type()) != "error" {
					continue
				}
				nDyn++
				added := false
				for _, ci := range ir.CallsIn(f, func(cc *ssa.CallCommon) bool {
					g := cc.StaticCallee()
					return g != nil && g.Name() == "Add" && len(cc.Args) == 2 && isAcc(cc.Args[0].Type())
				}) {
					if ir.Resolve(ci.Common().Args[1]) != ssa.Value(call) {
						continue
					}
					for _, l := range e.DCS(ci) {
						if l.Kind == "cmp" && l.Op == token.NEQ && ir.IsNilConst(l.Y) && ir.Resolve(l.X) == ssa.Value(call) {
							added = true
						}
					}
					// `errs.Add(stage())`: added on every path after the call (the
					// accumulator drops nil itself)
					if ci.Block() == call.Block() || call.Block().Dominates(ci.Block()) {
						if bad, _ := ir.Bypass(call, nil, ir.PathQuery{Stop: func(in ssa.Instruction) bool { return in == ssa.Instruction(ci) }, Bad: func(in ssa.Instruction) bool {
							if ir.IsReturn(in) {
								return true
							}
							l := ir.InnermostLoop(ir.Loops(f), call.Block())
							return l != nil && in == l.Header.Instrs[0]
						}}); bad == nil {
							added = true
						}
					}
				}
				// and no way from the failure edge back to the next builder without the Add
				r.Check(added, "callBuilderFunc: a builder's error is added to the error list", e.InstrPos(call), "errors of field builders are dropped")
			}
		}
	}
	if nDyn == 0 {
		r.Unknown("the call of the field builders", dagRel, "no call through a func() error value of the package found")
	}
}

// cSignalNameValid: wherever a Step's SignalOnStop is filled from a computed value,
// the store is dominated by SignalNum(that same value) != 0 - the resolver the stop
// path applies to the stored text (shared by C13.validity and C05.signal-name-valid:
// a name that the stop path resolves to 0 is "delivered" as signal 0, i.e. not at all).
func cSignalNameValid(e *Env, inScope func(*ssa.Function) bool) int {
	r := e.R
	n := 0
	for _, f := range e.RepoFuncsSorted() {
		if !inScope(f) {
			continue
		}
		for _, ev := range e.C.FieldStores(f, "SignalOnStop") {
			if len(ev.Via) > 0 || ev.Val == nil || ev.Init {
				continue
			}
			if !strings.HasSuffix(ir.NamedType(ev.Root.Type()), "internal/dag.Step") {
				continue
			}
			n++
			ok := false
			for _, l := range e.DCS(ev.Site) {
				if l.Kind == "cmp" && l.Op == token.NEQ {
					if k, isC := ir.ConstInt(l.Y); isC && k == 0 {
						if sc, isCall := ir.Resolve(l.X).(*ssa.Call); isCall && ir.IsCallTo(&sc.Call, "golang.org/x/sys/unix.SignalNum") {
							if ir.Resolve(sc.Call.Args[0]) == ir.Resolve(ev.Val) {
								ok = true
							}
						}
					}
				}
			}
			r.Check(ok, shortName(f)+": Step.SignalOnStop stored only when SignalNum(that value) != 0", e.InstrPos(ev.Site),
				"a signal name is accepted without having been validated itself (the validated text differs from the stored text, or there is no validation): at stop time the stored name resolves to signal 0 and the step is never signalled")
		}
	}
	return n
}
