package rules

import (
	"go/token"
	"strings"

	"golang.org/x/tools/go/ssa"

	"bdcheck/internal/ir"
)

func init() {
	register(&Prop{ID: "C02", Run: runC02,
		Technique: "static analysis: enum decision table from edge-dominance conditions (go/ssa), must-pass-through on the worker's error paths",
		Decided: []string{
			"isReady marks only the dependent (never the dependency) and only in the cells {failed & !continueOn.failure}→canceled, {skipped & !continueOn.skipped}→skipped, {canceled}→canceled (C02.mark-table)",
			"isReady's readiness verdict follows the licensed cells (C01.ready-table, shared)",
			"a step whose own precondition fails is marked skipped and cannot reach the launch in that pass (C02.precond-skip)",
			"after a failed execution every path to the worker's final labelling stores a status (failed/canceled/not-started) unless the step was already finished/canceled or the run was stopped (C02.fail-label)",
			"finished is stored only under status==running (C02.success-label); launch is gated and unique (C01.gate, C01.single-launch shared)",
		},
		NotDec: []string{
			"liveness: steps not downstream of a blocker always run to completion",
			"the canceled-vs-skipped labelling race the property itself leaves open; concrete DAG shapes and outcome scripts",
		},
		Assume: []string{"status accessors are recognised structurally (a method storing its argument into data.State.Status)"},
	})
}

func runC02(e *Env) {
	r := e.R
	r.Rule("C02.anchors", "anchor resolution", "launch site, scheduling loop, worker, isReady", 0)
	s := e.resolveSched()
	if !s.ok {
		return
	}
	c02MarkTable(e, s)
	c01ReadyTable(e, s, false)
	c02PrecondSkip(e, s)
	c02FailLabel(e, s)
	c02SuccessLabel(e, s)
	c01Gate(e, s)
	c01SingleLaunch(e, s)
}

func c02MarkTable(e *Env, s *Sched) {
	r := e.R
	r.Rule("C02.mark-table", "DCS+ENUM+VF", "isReady's status marks and their cells", 3)
	fn := s.IsReady
	var nodeParam ssa.Value
	for _, p := range fn.Params {
		if strings.HasSuffix(ir.NamedType(p.Type()), ".Node") {
			nodeParam = p
		}
	}
	for _, ev := range s.statusEvents(fn) {
		pos := e.InstrPos(ev.Site)
		k, isConst := s.constOf(ev)
		if !sameNode(ev.Root, nodeParam) {
			r.Bad("isReady: status written to a node other than the tested dependent", pos,
				"isReady changes the status of "+e.C.Render(ev.Root)+" (the dependency?) instead of the dependent being tested")
			continue
		}
		if !isConst {
			r.Unknown("isReady: non-constant status mark", pos, "value written: "+e.C.Render(ev.Val))
			continue
		}
		lits := e.DCS(ev.Site)
		var depRoot ssa.Value
		isDepStatus := func(v ssa.Value) bool {
			p, ok := e.C.PathOf(v)
			if !ok || !p.Suffix("State.Status") || SameValue(p.Root, nodeParam) {
				return false
			}
			depRoot = p.Root
			return true
		}
		set := ir.Restrict(lits, isDepStatus, s.NS)
		cons := "isReady: dependent:=" + s.name(k) + " when dependency ∈ {" + strings.Join(set.Names(s.NS), ",") + "}"
		ok, why := true, ""
		notLicensed := func(field string) bool {
			return HasVal(lits, func(x ssa.Value) bool { return e.IsFieldRead(x, depRoot, field) }, false)
		}
		for v := range set {
			switch {
			case s.name(k) == "NodeStatusCancel" && s.name(v) == "NodeStatusCancel":
			case s.name(k) == "NodeStatusCancel" && s.name(v) == "NodeStatusError":
				if !notLicensed("ContinueOn.Failure") {
					ok, why = false, "the dependent of a failed step is canceled although the failed step's continueOn.failure was not tested false"
				}
			case s.name(k) == "NodeStatusSkipped" && s.name(v) == "NodeStatusSkipped":
				if !notLicensed("ContinueOn.Skipped") {
					ok, why = false, "the dependent of a skipped step is skipped although the skipped step's continueOn.skipped was not tested false"
				}
			default:
				ok = false
				why = "the dependent is marked " + s.name(k) + " while the dependency is in state " + s.name(v) + " (outside the containment table)"
				if v == ir.OtherEnum {
					why = "the dependent is marked " + s.name(k) + " without the dependency's status having been tested"
				}
			}
			if !ok {
				break
			}
		}
		r.Check(ok, cons, pos, why, e.FactsStr("dominating conditions: ", lits))
	}
}

func c02PrecondSkip(e *Env, s *Sched) {
	r := e.R
	r.Rule("C02.precond-skip", "DCS+MPT", "failed step precondition ⇒ skipped, not launched in that pass", 1)
	// the If testing EvalConditions(node.Preconditions) != nil
	var found bool
	for _, b := range s.Loop.Blocks {
		last, ok := b.Instrs[len(b.Instrs)-1].(*ssa.If)
		if !ok {
			continue
		}
		n := ir.Normalize(ir.Lit{Cond: last.Cond, Pol: true})
		if n.Kind != "cmp" || !ir.IsNilConst(n.Y) {
			continue
		}
		c, ok := ir.Resolve(n.X).(*ssa.Call)
		if !ok || !ir.IsCallTo(&c.Call, "internal/dag.EvalConditions") {
			continue
		}
		p, okp := e.C.PathOf(c.Call.Args[0])
		if !okp || !p.Suffix("Step.Preconditions") || !sameNode(p.Root, s.LoopNode) {
			continue
		}
		found = true
		failIdx := 0 // successor taken when err != nil
		if n.Op == token.EQL {
			failIdx = 1
		}
		fb := b.Succs[failIdx]
		// (a) Skipped is stored on the failing edge
		skipped := false
		for _, ev := range s.statusEvents(s.Loop) {
			k, isC := s.constOf(ev)
			if isC && k == s.val("NodeStatusSkipped") && sameNode(ev.Root, s.LoopNode) && (ev.Site.Block() == fb || fb.Dominates(ev.Site.Block())) {
				skipped = true
			}
		}
		r.Check(skipped, "loop: precondition failure stores Skipped into the node", e.InstrPos(last),
			"when a step's own precondition is not met the node is not marked skipped on that path")
		// (b) launch not reachable from the failing edge without re-entering the nodes loop header
		loops := ir.Loops(s.Loop)
		inner := ir.InnermostLoop(loops, s.Launch.Block())
		bad, _ := ir.Bypass(nil, fb, ir.PathQuery{
			Stop: func(in ssa.Instruction) bool {
				return inner != nil && in.Block() == inner.Header && in == inner.Header.Instrs[0]
			},
			Bad: func(in ssa.Instruction) bool { return in == ssa.Instruction(s.Launch) },
		})
		r.Check(bad == nil && inner != nil, "loop: precondition failure cannot fall through to the launch", e.InstrPos(last),
			"after a failed step precondition control can still reach the goroutine launch in the same pass (the skipped step would be executed)")
	}
	if !found {
		r.Bad("loop: step preconditions evaluated before launch", e.InstrPos(s.Launch),
			"no `dag.EvalConditions(node.Step.Preconditions) != nil` test found in the scheduling loop before the launch")
		return
	}
	// the launch must be dominated-or-bypassed only via `len(Preconditions) == 0` or EvalConditions == nil: covered by (b)
}

func c02FailLabel(e *Env, s *Sched) {
	r := e.R
	r.Rule("C02.fail-label", "MPT", "failed exec ⇒ some status stored before final labelling", 1)
	w := s.Worker
	n := 0
	evs := s.statusEvents(w)
	isStatusStore := func(in ssa.Instruction) bool {
		for _, ev := range evs {
			if ev.Site == in && sameNode(ev.Root, s.WorkerNode) {
				return true
			}
		}
		return false
	}
	succ := s.val("NodeStatusSuccess")
	var succSites []ssa.Instruction
	for _, ev := range evs {
		if k, ok := s.constOf(ev); ok && k == succ {
			succSites = append(succSites, ev.Site)
		}
	}
	for _, b := range w.Blocks {
		last, ok := b.Instrs[len(b.Instrs)-1].(*ssa.If)
		if !ok {
			continue
		}
		nl := ir.Normalize(ir.Lit{Cond: last.Cond, Pol: true})
		if nl.Kind != "cmp" || !ir.IsNilConst(nl.Y) {
			continue
		}
		c, ok := ir.Resolve(nl.X).(*ssa.Call)
		if !ok || c.Call.StaticCallee() == nil || c.Parent() != w {
			continue
		}
		if !e.ReachesRepo(c.Call.StaticCallee(), func(x *ssa.Function) bool { return x == s.Execute }) {
			continue
		}
		// only the first test of this result (the one dominating the others)
		first := true
		for _, ob := range w.Blocks {
			if oi, ok := ob.Instrs[len(ob.Instrs)-1].(*ssa.If); ok && ob != b {
				on := ir.Normalize(ir.Lit{Cond: oi.Cond, Pol: true})
				if on.Kind == "cmp" && ir.Resolve(on.X) == ssa.Value(c) && ob.Dominates(b) {
					first = false
				}
			}
		}
		if !first {
			continue
		}
		n++
		failIdx := 0
		if nl.Op == token.EQL {
			failIdx = 1
		}
		start := b.Succs[failIdx]
		exemptLit := func(l ir.NLit) bool {
			if l.Kind == "cmp" && l.Op == token.EQL && s.isStatusOf(s.WorkerNode)(l.X) {
				if k, ok := ir.ConstInt(l.Y); ok && (s.name(k) == "NodeStatusSuccess" || s.name(k) == "NodeStatusCancel") {
					return true
				}
			}
			if l.Kind == "val" && l.Pol {
				if cc, ok := l.V.(*ssa.Call); ok && ir.IsCallTo(&cc.Call, "(*"+schedRel+".Scheduler).isCanceled") {
					return true
				}
			}
			return false
		}
		exempt := func(from *ssa.BasicBlock, idx int) bool {
			// edges that are licensed to leave the status untouched: every way
			// the edge's condition can hold is an exempt literal
			i, ok := from.Instrs[len(from.Instrs)-1].(*ssa.If)
			if !ok {
				return false
			}
			alts := e.Facts(w).Alternatives(ir.Lit{Cond: i.Cond, Pol: idx == 0, If: i})
			if len(alts) == 0 {
				return false
			}
			for _, a := range alts {
				if !exemptLit(ir.Normalize(a)) {
					return false
				}
			}
			return true
		}
		bad, path := ir.Bypass(nil, start, ir.PathQuery{
			Stop:     isStatusStore,
			SkipEdge: exempt,
			Bad: func(in ssa.Instruction) bool {
				for _, sx := range succSites {
					if sx == in {
						return true
					}
				}
				return ir.IsReturn(in)
			},
		})
		var facts []string
		if bad != nil {
			facts = append(facts, "reaches "+e.InstrPos(bad)+" via blocks "+blockList(path))
		}
		r.Check(bad == nil, "worker: after exec error every non-exempt path stores a status", e.InstrPos(last),
			"a failed execution can reach the final labelling / the end of the worker with its status untouched (it would be reported finished or stay running)", facts...)
	}
	if n == 0 {
		r.Unknown("worker: exec error test", e.Pos(w.Pos()), "no `exec(...) != nil` test found in the worker")
	}
}

func blockList(bs []*ssa.BasicBlock) string {
	var out []string
	for _, b := range bs {
		out = append(out, sprintf("%d", b.Index))
	}
	return strings.Join(out, "→")
}

func c02SuccessLabel(e *Env, s *Sched) {
	r := e.R
	r.Rule("C02.success-label", "DCS", "Success stored only under status==Running", 1)
	for _, ev := range s.statusEvents(s.Worker) {
		k, ok := s.constOf(ev)
		if !ok || k != s.val("NodeStatusSuccess") {
			continue
		}
		lits := e.DCS(ev.Site)
		r.Check(HasCmp(lits, s.isStatusOf(s.WorkerNode), token.EQL, s.val("NodeStatusRunning")),
			"worker: status:=Success under status==Running", e.InstrPos(ev.Site),
			"the worker can overwrite a failed/canceled/skipped label with finished", e.FactsStr("dominating conditions: ", lits))
	}
}
