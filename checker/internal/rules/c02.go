package rules

import (
	"go/token"
	"strings"

	"golang.org/x/tools/go/ssa"

	"bdcheck/internal/ir"
)

func init() {
	register(&Prop{ID: "C02", Run: runC02,
		Technique: "static analysis: enum decision table from edge-dominance conditions (go/ssa), must-pass-through on the worker's error paths",
		Decided: []string{
			"no executor sets exec.Cmd.WaitDelay: a command step's outcome is its command's exit status (C02.exit-status-is-outcome)",
			"isReady marks only the dependent (never the dependency) and only in the cells {failed & !continueOn.failure}→canceled, {skipped & !continueOn.skipped}→skipped, {canceled}→canceled (C02.mark-table)",
			"isReady's readiness verdict follows the licensed cells (C01.ready-table, shared)",
			"a step whose own precondition fails is marked skipped and cannot reach the launch in that pass (C02.precond-skip)",
			"after a failed execution every path to the worker's final labelling stores a status (failed/canceled/not-started) unless the step was already finished/canceled or the run was stopped (C02.fail-label)",
			"after the executor's Run, Node.Execute returns and records that Run's result on every way the value is formed (C02.exec-error-reported)",
			"the polling loop is left (loop test, break, return) only under finished(g) or the cancel flag, and finished(g) ranges over all nodes, passes over a node only when it is neither not-started nor running, and answers true only after the range is exhausted (C02.run-to-completion)",
			"finished is stored only under status==running (C02.success-label); launch is gated and unique (C01.gate, C01.single-launch shared)",
			"in the loader functions the evaluation of conditions reaches, once the error of running a substituted command (exec.Cmd.Output / CombinedOutput / Run) is assumed non-nil no return that may hand back a nil error is reachable (C02.condition-command-status)",
		},
		NotDec: []string{
			"liveness proper (that the loop makes progress); decided is only that it cannot END while a node is not-started or running unless the run was stopped (C02.run-to-completion)",
			"the canceled-vs-skipped labelling race the property itself leaves open; concrete DAG shapes and outcome scripts",
		},
		Assume: []string{"status accessors are recognised structurally (a method storing its argument into data.State.Status)"},
	})
}

func runC02(e *Env) {
	r := e.R
	r.Rule("C02.anchors", "anchor resolution", "launch site, scheduling loop, worker, isReady", 0)
	s := e.resolveSched()
	if !s.ok {
		return
	}
	c02MarkTable(e, s)
	c01ReadyTable(e, s, false)
	c02PrecondSkip(e, s)
	c02ConditionCommandStatus(e, "C02.condition-command-status")
	c02FailLabel(e, s)
	c02SuccessLabel(e, s)
	c01Gate(e, s)
	c01SingleLaunch(e, s)
	cRunToCompletion(e, s, "C02.run-to-completion")
	cExecErrorReported(e, s, "C02.exec-error-reported")
	c02NoWaitDelay(e)
}

func c02MarkTable(e *Env, s *Sched) {
	r := e.R
	r.Rule("C02.mark-table", "DCS+ENUM+VF", "isReady's status marks and their cells", 3)
	fn := s.IsReady
	var nodeParam ssa.Value
	for _, p := range fn.Params {
		if strings.HasSuffix(ir.NamedType(p.Type()), ".Node") {
			nodeParam = p
		}
	}
	type markCase struct {
		ev   ir.StoreEvent
		k    int64
		lits []ir.NLit
		bind map[ssa.Value]ssa.Value
	}
	var cases []markCase
	for _, ev := range s.events(e.inlinedSet(fn, nil)) {
		pos := e.InstrPos(ev.Site)
		k, isConst := s.constOf(ev)
		if !sameNode(ev.Root, nodeParam) {
			r.Bad("isReady: status written to a node other than the tested dependent", pos,
				"isReady changes the status of "+e.C.Render(ev.Root)+" (the dependency?) instead of the dependent being tested")
			continue
		}
		if isConst {
			for _, w := range e.waysTo(ev.Site) {
				cases = append(cases, markCase{ev: ev, k: k, lits: w})
			}
			continue
		}
		// the mark chosen by a classifier helper (`blocked, mark, cause := verdict(dep)`):
		// one case per return of the helper, with the conditions of that return
		split := false
		if c, idx, ok := e.helperOf(ir.Deep(ev.Val)); ok {
			if alts, ok := e.splitOnCall(c, e.DCS(ev.Site)); ok {
				split = true
				for _, a := range alts {
					kv, isC := ir.ConstInt(a.Results[idx])
					if a.Results[idx] == nil || !isC {
						split = false
						break
					}
					cases = append(cases, markCase{ev: ev, k: kv, lits: a.Lits})
				}
			}
		}
		// the mark read from a constant table (`block, ok := blocks[depStatus]; node.setStatus(block.status)`):
		// one case per entry
		if !split {
			if lk, which, field, _, ok := e.tableLookup(ir.Deep(ev.Val)); ok && which == 0 {
				split = true
				// every way of reaching the store, the lookup resolved entry by entry (an `ok`
				// test, a test of a field, a call of an entry's function are all settled by the entry)
				var ways [][]ir.NLit
				for _, way := range e.waysTo(ev.Site) {
					// conditions written through methods of the looked-up row (`rule.blocks(dep)`)
					// are opened first, so that what they say about the row is settled by the entry too
					ways = append(ways, e.expandHelperCalls(way, 0)...)
				}
				for _, way := range ways {
					// make sure the lookup is mentioned so that it is resolved even without an ok test
					for _, ta := range e.expandTableFields(append(append([]ir.NLit{}, way...), ir.NLit{Kind: "cmp", Op: token.EQL, X: ev.Val, Y: ev.Val})) {
						ent, has := ta.Entries[lk]
						if !has || ent == nil {
							continue // the miss: the zero value is stored; judged by the ok test (infeasible under `ok`)
						}
						v := ent.Val
						if field != "" {
							v = ent.Fields[field]
						}
						kv, isC := ir.ConstInt(v)
						if v == nil || !isC {
							split = false
							break
						}
						var lits []ir.NLit
						for _, l := range ta.Lits {
							if l.Kind == "cmp" && l.X == ev.Val && l.Y == ev.Val {
								continue
							}
							lits = append(lits, l)
						}
						cases = append(cases, markCase{ev: ev, k: kv, lits: lits, bind: ta.Bind})
					}
				}
			}
		}
		if !split {
			r.Unknown("isReady: non-constant status mark", pos, "value written: "+e.C.Render(ev.Val))
		}
	}
	// conditions written through helpers of the readiness function are expanded
	var expanded []markCase
	for _, mc := range cases {
		for _, lits := range e.expandHelperCalls(mc.lits, 0) {
			expanded = append(expanded, markCase{ev: mc.ev, k: mc.k, lits: lits, bind: mc.bind})
		}
	}
	judge := func(mc markCase) {
		ev, k, lits := mc.ev, mc.k, mc.lits
		pos := e.InstrPos(ev.Site)
		undo := ir.SetOverride(mc.bind) // the parameters of an entry function stand for the call's arguments
		defer undo()
		var depRoot ssa.Value
		isDepStatus := func(v ssa.Value) bool {
			p, ok := e.pathThroughParams(v)
			if !ok || !p.Suffix("State.Status") || sameNode(p.Root, nodeParam) {
				return false
			}
			depRoot = p.Root
			return true
		}
		set := ir.Restrict(lits, isDepStatus, s.NS)
		if len(set) == 0 {
			return // an infeasible way (contradictory tests of the dependency's status)
		}
		cons := "isReady: dependent:=" + s.name(k) + " when dependency ∈ {" + strings.Join(set.Names(s.NS), ",") + "}"
		ok, why := true, ""
		notLicensed := func(field string) bool {
			return HasVal(lits, func(x ssa.Value) bool { return e.IsFieldRead(x, depRoot, field) }, false)
		}
		for v := range set {
			switch {
			case s.name(k) == "NodeStatusCancel" && s.name(v) == "NodeStatusCancel":
			case s.name(k) == "NodeStatusCancel" && s.name(v) == "NodeStatusError":
				if !notLicensed("ContinueOn.Failure") {
					ok, why = false, "the dependent of a failed step is canceled although the failed step's continueOn.failure was not tested false"
				}
			case s.name(k) == "NodeStatusSkipped" && s.name(v) == "NodeStatusSkipped":
				if !notLicensed("ContinueOn.Skipped") {
					ok, why = false, "the dependent of a skipped step is skipped although the skipped step's continueOn.skipped was not tested false"
				}
			default:
				ok = false
				why = "the dependent is marked " + s.name(k) + " while the dependency is in state " + s.name(v) + " (outside the containment table)"
				if v == ir.OtherEnum {
					why = "the dependent is marked " + s.name(k) + " without the dependency's status having been tested"
				}
			}
			if !ok {
				break
			}
		}
		r.Check(ok, cons, pos, why, e.FactsStr("dominating conditions: ", lits))
	}
	for _, mc := range expanded {
		judge(mc)
	}
}

func c02PrecondSkip(e *Env, s *Sched) {
	r := e.R
	r.Rule("C02.precond-skip", "DCS+RC", "failed step precondition ⇒ skipped, not launched in that pass", 1)
	isPrecondEval := func(v ssa.Value) bool {
		c, ok := ir.Resolve(v).(*ssa.Call)
		if !ok || !ir.IsCallTo(&c.Call, "internal/dag.EvalConditions") {
			return false
		}
		p, okp := e.C.PathOf(c.Call.Args[0])
		return okp && p.Suffix("Step.Preconditions") && sameNode(p.Root, s.LoopNode)
	}
	// the evaluation's result, also as handed back by a helper of the loop (`unmet :=
	// sc.checkPreconditions(node)`: every return is nil or the evaluation's error)
	var isPrecondResult func(v ssa.Value, d int) bool
	isPrecondResult = func(v ssa.Value, d int) bool {
		if isPrecondEval(v) {
			return true
		}
		c, ok := ir.Resolve(v).(*ssa.Call)
		if !ok || d > 2 {
			return false
		}
		h := c.Call.StaticCallee()
		if h == nil || !s.LoopFns[h] || h.Blocks == nil || h.Signature.Results().Len() != 1 || !ir.IsErrorType(h.Signature.Results().At(0).Type()) {
			return false
		}
		some := false
		for _, b := range h.Blocks {
			rt, isR := b.Instrs[len(b.Instrs)-1].(*ssa.Return)
			if !isR || !e.Facts(h).Reachable(b) {
				continue
			}
			for _, rv := range RetVals(rt, 0) {
				switch {
				case ir.IsNilConst(ir.Resolve(rv)):
				case isPrecondResult(rv, d+1):
					some = true
				default:
					return false
				}
			}
		}
		return some
	}
	forwards := map[*ssa.Function]bool{}
	for _, f := range sortedFns(s.LoopFns) {
		for _, ci := range ir.CallsIn(f, func(c *ssa.CallCommon) bool { return c.StaticCallee() != nil && s.LoopFns[c.StaticCallee()] }) {
			if v, isV := ci.(ssa.Value); isV && isPrecondResult(v, 0) {
				forwards[ci.Common().StaticCallee()] = true
			}
		}
	}
	// (a) on the failing edge of the precondition test the node is marked skipped
	found := false
	for _, f := range sortedFns(s.LoopFns) {
		if forwards[f] {
			continue // hands the result back: its caller's test is the one that decides
		}
		for _, b := range f.Blocks {
			last, ok := b.Instrs[len(b.Instrs)-1].(*ssa.If)
			if !ok {
				continue
			}
			n := ir.Normalize(ir.Lit{Cond: last.Cond, Pol: true})
			if n.Kind != "cmp" || !ir.IsNilConst(n.Y) || !isPrecondResult(n.X, 0) {
				continue
			}
			found = true
			failIdx := 0 // successor taken when err != nil
			if n.Op == token.EQL {
				failIdx = 1
			}
			fb := b.Succs[failIdx]
			skipped := false
			for _, ev := range s.statusEvents(f) {
				k, isC := s.constOf(ev)
				if isC && k == s.val("NodeStatusSkipped") && sameNode(ev.Root, s.LoopNode) && (ev.Site.Block() == fb || fb.Dominates(ev.Site.Block())) {
					skipped = true
				}
			}
			r.Check(skipped, "loop: precondition failure stores Skipped into the node", e.InstrPos(last),
				"when a step's own precondition is not met the node is not marked skipped on that path")
		}
	}
	if !found {
		r.Bad("loop: step preconditions evaluated before launch", e.InstrPos(s.Launch),
			"no `dag.EvalConditions(node.Step.Preconditions) != nil` test found in the scheduling loop before the launch")
		return
	}
	// (b) every way of reaching the launch within one pass over the nodes has the
	// preconditions evaluated successfully, or there are none (helpers expanded)
	if s.GateLoop == nil {
		r.Unknown("loop: the per-node pass the launch belongs to", e.InstrPos(s.Launch), "the launch is not inside a loop over the nodes")
		return
	}
	var body *ssa.BasicBlock
	for _, sb := range s.GateLoop.Header.Succs {
		if s.GateLoop.Blocks[sb] {
			body = sb
		}
	}
	dnf, okRC := ir.ReachingCondition(body, s.GateSite.Block(), 64)
	if !okRC || len(dnf) == 0 {
		r.Unknown("loop: precondition failure cannot fall through to the launch", e.InstrPos(s.GateSite), "reaching condition of the launch too large")
		return
	}
	ff := e.Facts(s.GateFn)
	okAll := true
	var bad []string
	for _, cj := range dnf {
		for _, conj := range ff.ExpandDNFRegion(body, []ir.Lit(cj)) {
			for _, lits := range e.expandHelperCalls(ir.NormalizeAll(conj), 0) {
				good := false
				for _, l := range lits {
					if l.Kind != "cmp" {
						continue
					}
					if l.Op == token.EQL && ir.IsNilConst(l.Y) && isPrecondEval(l.X) {
						good = true
					}
					// no preconditions: len(Preconditions) == 0 / <= 0
					if x, isLen := lenArg(l.X); isLen && (l.Op == token.EQL || l.Op == token.LEQ) {
						if k, isK := ir.ConstInt(l.Y); isK && k == 0 {
							if p, okp := e.C.PathOf(x); okp && p.Suffix("Step.Preconditions") && sameNode(p.Root, s.LoopNode) {
								good = true
							}
						}
					}
				}
				if !good {
					okAll = false
					bad = append(bad, "{"+strings.Join(e.RenderN(lits), " ; ")+"}")
				}
			}
		}
	}
	r.Check(okAll, "loop: precondition failure cannot fall through to the launch", e.InstrPos(s.GateSite),
		"within one pass over the nodes the goroutine launch can be reached although the step's preconditions were not evaluated successfully (the skipped step would be executed)",
		"ways to the launch without `EvalConditions(...) == nil` or `len(Preconditions) == 0`: "+strings.Join(bad, " | "))
}

func c02FailLabel(e *Env, s *Sched) {
	r := e.R
	r.Rule("C02.fail-label", "MPT", "failed exec ⇒ some status stored before final labelling", 1)
	n := 0
	evs := s.events(s.WorkerFns)
	isStatusStore := func(in ssa.Instruction) bool {
		for _, ev := range evs {
			if ev.Site == in && sameNode(ev.Root, s.WorkerNode) {
				return true
			}
		}
		return false
	}
	succ := s.val("NodeStatusSuccess")
	var succSites []ssa.Instruction
	for _, ev := range evs {
		if k, ok := s.constOf(ev); ok && k == succ {
			succSites = append(succSites, ev.Site)
		}
	}
	for _, w := range sortedFns(s.WorkerFns) {
		for _, b := range w.Blocks {
			last, ok := b.Instrs[len(b.Instrs)-1].(*ssa.If)
			if !ok {
				continue
			}
			nl := ir.Normalize(ir.Lit{Cond: last.Cond, Pol: true})
			if nl.Kind != "cmp" || !ir.IsNilConst(nl.Y) {
				continue
			}
			// the tested value: the call's result, directly or as the only non-nil
			// alternative of a variable (`var err error; if !dry { err = exec() }`)
			var c *ssa.Call
			if ls := nonNilLeaves(nl.X); len(ls) == 1 {
				c, _ = ls[0].(*ssa.Call)
			}
			if c == nil || c.Call.StaticCallee() == nil || c.Parent() != w {
				continue
			}
			if !e.ReachesRepo(c.Call.StaticCallee(), func(x *ssa.Function) bool { return x == s.Execute }) {
				continue
			}
			// a test of an error that a helper of the worker hands back after having
			// tested (and handled) it itself is not the place where the failure is
			// labelled: the innermost test is
			if g := c.Call.StaticCallee(); g != nil && s.inWorker(g) && g != s.Execute {
				inner := false
				for _, h := range e.withPkgHelpers(g) {
					if !s.inWorker(h) {
						continue
					}
					for _, hb := range h.Blocks {
						hi, isIf := hb.Instrs[len(hb.Instrs)-1].(*ssa.If)
						if !isIf {
							continue
						}
						hn := ir.Normalize(ir.Lit{Cond: hi.Cond, Pol: true})
						if hn.Kind != "cmp" || !ir.IsNilConst(hn.Y) {
							continue
						}
						if ls := nonNilLeaves(hn.X); len(ls) == 1 {
							if hc, isC := ls[0].(*ssa.Call); isC && hc.Parent() == h && hc.Call.StaticCallee() != nil &&
								e.ReachesRepo(hc.Call.StaticCallee(), func(x *ssa.Function) bool { return x == s.Execute }) {
								inner = true
							}
						}
					}
				}
				if inner {
					continue
				}
			}
			// only the first test of this result (the one dominating the others)
			first := true
			for _, ob := range w.Blocks {
				if oi, ok := ob.Instrs[len(ob.Instrs)-1].(*ssa.If); ok && ob != b {
					on := ir.Normalize(ir.Lit{Cond: oi.Cond, Pol: true})
					if on.Kind == "cmp" && ir.Resolve(on.X) == ir.Resolve(nl.X) && ob.Dominates(b) {
						first = false
					}
				}
			}
			if !first {
				continue
			}
			n++
			failIdx := 0
			if nl.Op == token.EQL {
				failIdx = 1
			}
			start := b.Succs[failIdx]
			exemptLit := func(l ir.NLit) bool {
				if l.Kind == "cmp" && l.Op == token.EQL && s.isStatusOf(s.WorkerNode)(l.X) {
					if k, ok := ir.ConstInt(l.Y); ok && (s.name(k) == "NodeStatusSuccess" || s.name(k) == "NodeStatusCancel") {
						return true
					}
				}
				if l.Kind == "val" && l.Pol {
					if cc, ok := l.V.(*ssa.Call); ok && isCanceledCall(cc) {
						return true
					}
				}
				return false
			}
			exempt := func(from *ssa.BasicBlock, idx int) bool {
				// edges that are licensed to leave the status untouched: every way
				// the edge's condition can hold is an exempt literal
				i, ok := from.Instrs[len(from.Instrs)-1].(*ssa.If)
				if !ok {
					return false
				}
				alts := e.Facts(from.Parent()).Alternatives(ir.Lit{Cond: i.Cond, Pol: idx == 0, If: i})
				if len(alts) == 0 {
					return false
				}
				for _, a := range alts {
					if !exemptLit(ir.Normalize(a)) {
						return false
					}
				}
				return true
			}
			q := ir.PathQuery{
				Stop:     isStatusStore,
				SkipEdge: exempt,
				Descend:  func(g *ssa.Function) bool { return s.inWorker(g) },
				Bad: func(in ssa.Instruction) bool {
					for _, sx := range succSites {
						if sx == in {
							return true
						}
					}
					return ir.IsReturn(in)
				},
			}
			bad, path := ir.Bypass(nil, start, q)
			var facts []string
			if bad != nil {
				facts = append(facts, "reaches "+e.InstrPos(bad)+" via blocks "+blockList(path))
			}
			r.Check(bad == nil, "worker: after exec error every non-exempt path stores a status", e.InstrPos(last),
				"a failed execution can reach the final labelling / the end of the worker with its status untouched (it would be reported finished or stay running)", facts...)
		}
	}
	if n == 0 {
		r.Unknown("worker: exec error test", e.Pos(s.Worker.Pos()), "no `exec(...) != nil` test found in the worker")
	}
}

func blockList(bs []*ssa.BasicBlock) string {
	var out []string
	for _, b := range bs {
		out = append(out, sprintf("%d", b.Index))
	}
	return strings.Join(out, "→")
}

func c02SuccessLabel(e *Env, s *Sched) {
	r := e.R
	r.Rule("C02.success-label", "DCS", "Success stored only under status==Running", 1)
	for _, ev := range s.events(s.WorkerFns) {
		k, ok := s.constOf(ev)
		if !ok || k != s.val("NodeStatusSuccess") || !sameNode(ev.Root, s.WorkerNode) {
			continue
		}
		lits := e.DCS(ev.Site)
		r.Check(HasCmp(lits, s.isStatusOf(s.WorkerNode), token.EQL, s.val("NodeStatusRunning")),
			"worker: status:=Success under status==Running", e.InstrPos(ev.Site),
			"the worker can overwrite a failed/canceled/skipped label with finished", e.FactsStr("dominating conditions: ", lits))
	}
}
