package rules

import (
	"go/token"
	"go/types"
	"strings"

	"golang.org/x/tools/go/ssa"

	"bdcheck/internal/ir"
)

func init() {
	register(&Prop{ID: "C15", Run: runC15,
		Technique: "static analysis: reaching condition (path-predicate dataflow in DNF) of the launch site, enum table of the running counter, who-may-write of the running state (go/ssa)",
		Decided: []string{
			"every way of reaching the launch inside one pass either has maxActiveRuns<=0 or runningCount(g) < maxActiveRuns (normalised comparison) (C15.gate)",
			"runningCount counts exactly the nodes whose status is running, over all nodes (C15.count-table)",
			"the loop flips the node to running before the go statement, so the next count sees it (C01.flip-first shared); a step sleeping out its retry interval is still running (C01.retry-reset-late shared)",
			"running is stored into a graph node only by the loop goroutine (C15.running-writers)",
			"a node stays running for as long as its command runs: Node.Execute invokes the executor's Run itself and returns after it, never from a goroutine it merely starts (C15.slot-held-while-running)",
		},
		NotDec: []string{"the instantaneous number of OS processes", "that the limit never prevents completion (liveness)", "interleavings of count and flip with worker completions (the count can only be stale-high)"},
	})
}

func runC15(e *Env) {
	r := e.R
	r.Rule("C15.anchors", "anchor resolution", "launch site, scheduling loop, worker", 0)
	s := e.resolveSched()
	if !s.ok {
		return
	}
	c15Gate(e, s)
	c15CountTable(e, s)
	c01FlipFirst(e, s)
	c01RetryResetLate(e, s)
	c15RunningWriters(e, s)
	cSyncRun(e, s, "C15.slot-held-while-running")
}

func c15Gate(e *Env, s *Sched) {
	r := e.R
	r.Rule("C15.gate", "RC", "launch reachable only with max<=0 or count<max", 1)
	if s.GateLoop == nil {
		r.Unknown("loop: launch inside the per-node loop", e.InstrPos(s.Launch), "launch is not inside a loop")
		return
	}
	inner := s.GateLoop
	var body *ssa.BasicBlock
	for _, sb := range inner.Header.Succs {
		if inner.Blocks[sb] {
			body = sb
		}
	}
	dnf, ok := ir.ReachingCondition(body, s.GateSite.Block(), 32)
	if !ok || len(dnf) == 0 {
		r.Unknown("loop: reaching condition of the launch", e.InstrPos(s.Launch), "reaching condition could not be computed (too many disjuncts or unreachable)")
		return
	}
	isMax := func(v ssa.Value) bool {
		// the limit, possibly converted (`int(l)` for a limit kept in a small named type)
		for d := 0; d < 3; d++ {
			if cv, isCv := ir.Resolve(v).(*ssa.Convert); isCv {
				v = cv.X
				continue
			}
			break
		}
		if e.IsFieldRead(v, nil, e.schedFields().MaxActive) {
			return true
		}
		// the receiver of a method on the limit's own type, bound to the scheduler's field
		if pr, isP := ir.Resolve(v).(*ssa.Parameter); isP {
			if b := ir.Bound(pr); b != nil {
				return e.IsFieldRead(b, nil, e.schedFields().MaxActive)
			}
		}
		return false
	}
	// the counter, by role: the int-valued repository function whose result the limit is compared with
	isCount := func(v ssa.Value) bool {
		c, ok := ir.Resolve(v).(*ssa.Call)
		if !ok || c.Call.StaticCallee() == nil || !e.P.Funcs[c.Call.StaticCallee()] {
			return false
		}
		f := c.Call.StaticCallee()
		if f.Signature.Results().Len() != 1 || f.Signature.Results().At(0).Type().String() != "int" {
			return false
		}
		s.Counter = f
		return true
	}
	isCount0 := isCount
	isCount = func(v ssa.Value) bool {
		// the count handed to a predicate of the limit (`limit.reachedBy(g.countRunning())`)
		if pr, isP := ir.Resolve(v).(*ssa.Parameter); isP {
			if b := ir.Bound(pr); b != nil {
				return isCount0(b)
			}
		}
		return isCount0(v)
	}
	// slots left, by role: an int accumulator of a loop in a repository function that
	// starts from the limit (C15.count-table checks that it goes down by one exactly per running node)
	isSlotsLeft := func(v ssa.Value) bool {
		ph, ok := ir.Resolve(v).(*ssa.Phi)
		if !ok || ph.Type().String() != "int" || !e.P.Funcs[ph.Parent()] {
			return false
		}
		for _, l := range ir.Loops(ph.Parent()) {
			if l.Header != ph.Block() {
				continue
			}
			for k, ed := range ph.Edges {
				if !l.Blocks[l.Header.Preds[k]] && isMax(ed) {
					s.Counter, s.CountDown = ph.Parent(), true
					return true
				}
			}
		}
		return false
	}
	ff := e.Facts(s.GateFn)
	allOK := true
	var facts []string
	var expanded [][]ir.NLit
	for _, cj := range dnf {
		for _, conj := range ff.ExpandDNFRegion(body, []ir.Lit(cj)) {
			// a limit test extracted into a boolean helper is expanded into its return conditions
			expanded = append(expanded, e.expandHelperCalls(ir.NormalizeAll(conj), 0)...)
		}
	}
	judge := func(lits []ir.NLit) {
		good := false
		for _, l := range lits {
			if l.Kind != "cmp" {
				continue
			}
			// maxActiveRuns <= 0
			if l.Op == token.LEQ && isMax(l.X) {
				if k, ok := ir.ConstInt(l.Y); ok && k == 0 {
					good = true
				}
			}
			if l.Op == token.LSS && isMax(l.X) {
				if k, ok := ir.ConstInt(l.Y); ok && k == 1 {
					good = true
				}
			}
			if l.Op == token.EQL && isMax(l.X) {
				if k, ok := ir.ConstInt(l.Y); ok && k == 0 {
					good = true
				}
			}
			// count < max
			if l.Op == token.LSS && isMax(l.Y) && isCount(l.X) {
				good = true
			}
			// the same test counted the other way round: slots left = max − running, 0 < left
			if (l.Op == token.LSS || l.Op == token.LEQ) && isSlotsLeft(l.Y) {
				if k, ok := ir.ConstInt(l.X); ok && ((l.Op == token.LSS && k == 0) || (l.Op == token.LEQ && k == 1)) {
					good = true
				}
			}
		}
		facts = append(facts, "disjunct: {"+strings.Join(e.RenderN(lits), " ; ")+"}")
		if !good {
			allOK = false
		}
	}
	for _, lits := range expanded {
		// predicates with several call sites or a single expression (`limit.reachedBy(n)`)
		// are opened with their parameters bound to this call's arguments
		e.ways(lits, judge)
	}
	r.Check(allOK, "loop: go→worker reachable only with maxActiveRuns<=0 or runningCount<maxActiveRuns", e.InstrPos(s.Launch),
		"some way of reaching the launch neither has the limit disabled nor has established running count < maxActiveRuns (off-by-one, or the limit test can be bypassed)", facts...)
}

func c15CountTable(e *Env, s *Sched) {
	r := e.R
	r.Rule("C15.count-table", "DCS+ENUM", "runningCount increments exactly under status==Running, over all nodes", 2)
	fn := s.Counter // by role: the function whose result the launch gate compares with maxActiveRuns
	if fn == nil {
		fn = e.Fn(schedRel, "(*Scheduler).runningCount")
	}
	if fn == nil {
		return
	}
	// the gate calls the higher-order helper itself (`running := countFunc(nodes, isRunning)`):
	// judged with its parameters bound to the arguments of that call
	if hasFuncParam(fn) {
		var sites []ssa.CallInstruction
		for _, f := range e.RepoFuncsSorted() {
			sites = append(sites, ir.CallsIn(f, func(c *ssa.CallCommon) bool { return c.StaticCallee() == fn })...)
		}
		if len(sites) == 1 {
			bind := map[ssa.Value]ssa.Value{}
			for i, p := range fn.Params {
				if i < len(sites[0].Common().Args) {
					bind[p] = sites[0].Common().Args[i]
				}
			}
			undo := ir.SetOverride(bind)
			defer undo()
		}
	}
	loops := ir.Loops(fn)
	if len(loops) == 0 {
		// counting handed to a higher-order helper (`return countFunc(g.Nodes(), (*Node).isRunning)`):
		// the helper is judged with its parameters bound to this call's arguments
		if h, call := forwardsTo(fn); h != nil && len(ir.Loops(h)) == 1 {
			bind := map[ssa.Value]ssa.Value{}
			for i, p := range h.Params {
				if i < len(call.Call.Args) {
					bind[p] = call.Call.Args[i]
				}
			}
			undo := ir.SetOverride(bind)
			defer undo()
			fn, loops = h, ir.Loops(h)
		}
	}
	if len(loops) != 1 || loops[0].Ranged == nil {
		r.Unknown("runningCount: one range loop", e.Pos(fn.Pos()), sprintf("found %d loops", len(loops)))
		return
	}
	l := loops[0]
	p, okp := e.C.PathOf(l.Ranged)
	if pr, isP := ir.Resolve(l.Ranged).(*ssa.Parameter); isP && ir.Bound(pr) != nil {
		p, okp = e.C.PathOf(ir.Bound(pr))
	}
	allNodes := false
	for _, an := range e.graphRoles().AllNodes {
		if okp && p.Suffix(an) {
			allNodes = true
		}
	}
	r.Check(allNodes, "runningCount: ranges over the graph's nodes", e.Pos(fn.Pos()), "the counter does not iterate over all graph nodes")
	var acc *ssa.Phi
	for _, in := range l.Header.Instrs {
		if ph, ok := in.(*ssa.Phi); ok && ph.Type().String() == "int" && ph.Comment != "rangeindex" {
			acc = ph
		}
	}
	if acc == nil {
		r.Unknown("runningCount: counter accumulator", e.Pos(fn.Pos()), "no int accumulator phi at the loop header")
		return
	}
	isElemStatus := func(v ssa.Value) bool { return e.isStatusValue(v) }
	running := s.val("NodeStatusRunning")
	// each back edge: either unchanged (status != Running) or +1 (status == Running)
	var visit func(v ssa.Value, blk *ssa.BasicBlock, k int, d int)
	visit = func(v ssa.Value, blk *ssa.BasicBlock, k int, d int) {
		lits := e.DCSPhiEdge(blk, k)
		set := e.restrictWays(lits, isElemStatus, s.NS)
		pos := e.InstrPos(blk.Preds[k].Instrs[len(blk.Preds[k].Instrs)-1])
		switch x := v.(type) {
		case *ssa.Phi:
			if x == acc {
				r.Check(!set[running], "runningCount: unchanged only when status != Running", pos,
					"a running node is not counted", e.FactsStr("edge conditions: ", lits))
				return
			}
			if l.Blocks[x.Block()] && d < 6 {
				for i, ed := range x.Edges {
					visit(ed, x.Block(), i, d+1)
				}
				return
			}
		case *ssa.BinOp:
			stepOp := token.ADD
			if s.CountDown {
				stepOp = token.SUB
			}
			if x.Op == stepOp && x.X == ssa.Value(acc) {
				if c, ok := ir.ConstInt(x.Y); ok && c == 1 {
					// the increment's own block conditions
					ls := e.DCSBlock(x.Block())
					st := e.restrictWays(ls, isElemStatus, s.NS)
					r.Check(len(st) == 1 && st[running], "runningCount: count++ exactly under status == Running", e.InstrPos(x),
						"the counter is incremented for nodes in state {"+strings.Join(st.Names(s.NS), ",")+"}", e.FactsStr("conditions: ", ls))
					return
				}
			}
		}
		r.Unknown("runningCount: accumulator update not understood", pos, e.C.Render(v))
	}
	for k, ed := range acc.Edges {
		if !l.Blocks[l.Header.Preds[k]] {
			if s.CountDown {
				if !e.IsFieldRead(ed, nil, e.schedFields().MaxActive) {
					r.Bad("runningCount: counter starts at 0", e.Pos(fn.Pos()), "the slots-left counter does not start from the limit: "+e.C.Render(ed))
				}
			} else if c, ok := ir.ConstInt(ed); !ok || c != 0 {
				r.Bad("runningCount: counter starts at 0", e.Pos(fn.Pos()), "initial value "+e.C.Render(ed))
			}
			continue
		}
		visit(ed, l.Header, k, 0)
	}
	// result is the accumulator after exhaustion
	for _, b := range fn.Blocks {
		for _, in := range b.Instrs {
			if rt, ok := in.(*ssa.Return); ok && e.Facts(fn).Reachable(b) {
				if s.CountDown {
					// slots left: the answer is `0 < left` after the complete walk; a constant answer
					// before the walk is the limit-disabled case the gate rule judges
					rv := ir.Resolve(rt.Results[0])
					if _, isC := ir.ConstBool(rv); isC && !l.Blocks[b] && !onlyViaLoopExit(fn, l, b) {
						continue
					}
					n := ir.Normalize(ir.Lit{Cond: rt.Results[0], Pol: true})
					okCmp := false
					if n.Kind == "cmp" && ir.Resolve(n.Y) == ssa.Value(acc) {
						if k, isK := ir.ConstInt(n.X); isK && ((n.Op == token.LSS && k == 0) || (n.Op == token.LEQ && k == 1)) {
							okCmp = true
						}
					}
					r.Check(okCmp && !l.Blocks[b] && onlyViaLoopExit(fn, l, b), "runningCount: returns the accumulator after the loop is exhausted", e.InstrPos(rt),
						"the function does not answer from the completed count of slots left")
					continue
				}
				r.Check(ir.Resolve(rt.Results[0]) == ssa.Value(acc) && !l.Blocks[b] && onlyViaLoopExit(fn, l, b), "runningCount: returns the accumulator after the loop is exhausted", e.InstrPos(rt),
					"the function does not return the completed count (early exit from the counting loop?)")
			}
		}
	}
}

func c15RunningWriters(e *Env, s *Sched) {
	r := e.R
	r.Rule("C15.running-writers", "WMW", "Running stored into graph nodes only by the loop goroutine", 1)
	sp := e.P.Pkg(schedRel)
	running := s.val("NodeStatusRunning")
	for _, f := range e.RepoFuncsSorted() {
		if rootFn(f).Package() != sp || isAccessor(f) {
			continue
		}
		for _, ev := range s.statusEvents(f) {
			k, ok := s.constOf(ev)
			if !ok || k != running || ev.Init {
				continue
			}
			// a store made in a helper of the loop / the worker is judged in the helper
			if len(ev.Via) > 0 && (s.inLoop(ev.Via[0]) || s.inWorker(ev.Via[0])) {
				continue
			}
			pos := e.InstrPos(ev.Site)
			switch {
			case s.inLoop(f) && sameNode(ev.Root, s.LoopNode):
				r.OK("loop: flips the launched node to Running", pos, "")
			case s.inLoop(f) && s.isHandlerNode(ir.Deep(ev.Root)):
				r.OK("loop: handler node set Running by the handler runner", pos, "handler nodes are not graph nodes and run after Wait")
			case !s.inLoop(f) && !s.inWorker(f):
				// a helper outside the inlined sets: its callers must be the loop with a handler node
				okH := false
				if prm, isP := ev.Root.(*ssa.Parameter); isP {
					okH = true
					idx := paramIndex(prm)
					cs := e.StaticCallSites(f)
					if len(cs) == 0 || idx < 0 {
						okH = false
					}
					for _, ci := range cs {
						if !s.inLoop(ci.Parent()) || idx >= len(ci.Common().Args) || !s.isHandlerNode(ir.Deep(ci.Common().Args[idx])) {
							okH = false
						}
					}
				}
				r.Check(okH, ShortFn(f)+": sets Running on handler nodes only", pos, "a function other than the scheduling loop marks a graph node running")
			default:
				r.Bad(ShortFn(f)+": marks a node running", pos, "running is written outside the scheduling loop's flip: the running count seen by the limit test no longer matches launches")
			}
		}
	}
}

// onlyViaLoopExit: block b is reachable from the entry only through the loop
// header's exhaustion edge.
func onlyViaLoopExit(fn *ssa.Function, l *ir.Loop, b *ssa.BasicBlock) bool {
	exitIdx, ok := l.ExitEdge()
	if !ok {
		return false
	}
	reach := ir.BlocksReachableFrom(fn.Blocks[0], func(from *ssa.BasicBlock, idx int) bool { return from == l.Header && idx == exitIdx })
	return !reach[b] && b != fn.Blocks[0]
}

// forwardsTo: f only hands on the result of one call (single block, `return h(args)`):
// the callee (with a body - also an instance of a generic function) and the call.
func forwardsTo(f *ssa.Function) (*ssa.Function, *ssa.Call) {
	if len(f.Blocks) != 1 {
		return nil, nil
	}
	rt, ok := f.Blocks[0].Instrs[len(f.Blocks[0].Instrs)-1].(*ssa.Return)
	if !ok || len(rt.Results) != 1 {
		return nil, nil
	}
	c, ok := ir.Resolve(rt.Results[0]).(*ssa.Call)
	if !ok {
		return nil, nil
	}
	h := c.Call.StaticCallee()
	if h == nil || h.Blocks == nil {
		return nil, nil
	}
	return h, c
}

func hasFuncParam(f *ssa.Function) bool {
	for _, p := range f.Params {
		if _, ok := p.Type().Underlying().(*types.Signature); ok {
			return true
		}
	}
	return false
}
