package rules

import (
	"go/token"
	"go/types"
	"strings"

	"golang.org/x/tools/go/ssa"

	"bdcheck/internal/ir"
)

// nodeWalk describes a boolean function that answers by walking the graph's nodes:
// the value it returns when no node stops the walk (Exhaust), and the node states
// under which the walk passes on to the next node (Passed). Understood forms: a range
// loop with constant early returns, `[!]slices.ContainsFunc(nodes, pred)`, and
// forwarders (`return !g.anyPending()`) of either.
type nodeWalk struct {
	OK       bool
	Why      string
	Fn       *ssa.Function
	Exhaust  bool
	Passed   ir.EnumSet
	AllNodes bool
	Early    bool // some way of answering Exhaust does not come after the complete walk
}

func (s *Sched) nodeWalk(fn *ssa.Function) nodeWalk {
	e := s.e
	w := nodeWalk{Passed: ir.EnumSet{}}
	isElemStatus := func(v ssa.Value) bool { return e.isStatusValue(v) }
	isAll := func(v ssa.Value) bool {
		if p, okp := e.C.PathOf(v); okp {
			for _, an := range e.graphRoles().AllNodes {
				if p.Suffix(an) {
					return true
				}
			}
		}
		return false
	}
	walkFn, neg := s.followForwarders(fn)
	if walkFn == nil || walkFn.Blocks == nil {
		w.Why = "no body"
		return w
	}
	w.Fn = walkFn
	if qc := s.quantifierCall(walkFn); qc != nil && len(ir.Loops(walkFn)) == 0 {
		pred := funcOfValue(qc.Call.Args[1])
		if pred == nil || !strings.HasPrefix(ir.CalleeName(&qc.Call), "slices.ContainsFunc") {
			w.Why = "a slices search in a form other than ContainsFunc(nodes, pred)"
			return w
		}
		answerNeg := neg
		okShape := false
		for _, b := range walkFn.Blocks {
			if rt, isR := b.Instrs[len(b.Instrs)-1].(*ssa.Return); isR && len(rt.Results) == 1 && e.Facts(walkFn).Reachable(b) {
				v := ir.Resolve(rt.Results[0])
				n := false
				for {
					if u, isU := v.(*ssa.UnOp); isU && u.Op == token.NOT {
						v, n = ir.Resolve(u.X), !n
						continue
					}
					break
				}
				if v == ssa.Value(qc) {
					okShape = true
					answerNeg = neg != n
				} else {
					w.Why = "a return that is not the search's answer"
					return w
				}
			}
		}
		if !okShape {
			w.Why = "the search's answer is not what is returned"
			return w
		}
		// Contains is false when no node satisfies pred
		w.Exhaust = answerNeg
		w.AllNodes = isAll(qc.Call.Args[0])
		alts, okA := e.boolHelperReturns(pred, false)
		if !okA {
			w.Why = "the search's predicate is not a boolean function"
			return w
		}
		for _, a := range alts {
			for v := range e.restrictWays(a, isElemStatus, s.NS) {
				w.Passed[v] = true
			}
		}
		w.OK = true
		return w
	}
	loops := ir.Loops(walkFn)
	if len(loops) != 1 || loops[0].Ranged == nil {
		w.Why = sprintf("%d loops", len(loops))
		return w
	}
	l := loops[0]
	w.AllNodes = isAll(l.Ranged)
	for k, pb := range l.Header.Preds {
		if !l.Blocks[pb] {
			continue
		}
		for v := range e.restrictWays(e.DCSPhiEdge(l.Header, k), isElemStatus, s.NS) {
			w.Passed[v] = true
		}
	}
	// returns: a constant after the complete walk, the opposite constant before
	var after, before []bool
	for _, b := range walkFn.Blocks {
		rt, ok := b.Instrs[len(b.Instrs)-1].(*ssa.Return)
		if !ok || !e.Facts(walkFn).Reachable(b) || len(rt.Results) != 1 {
			continue
		}
		for _, v := range RetVals(rt, 0) {
			cb, isC := ir.ConstBool(ir.Resolve(v))
			if !isC {
				w.Why = "a computed answer at " + e.InstrPos(rt)
				return w
			}
			if !l.Blocks[b] && onlyViaLoopExit(walkFn, l, b) {
				after = append(after, cb)
			} else {
				before = append(before, cb)
			}
		}
	}
	if len(after) == 0 {
		w.Why = "no answer after the complete walk"
		return w
	}
	w.Exhaust = after[0]
	for _, a := range after {
		if a != w.Exhaust {
			w.Why = "two different answers after the complete walk"
			return w
		}
	}
	for _, b := range before {
		if b == w.Exhaust {
			w.Early = true
		}
	}
	if neg {
		w.Exhaust = !w.Exhaust
	}
	w.OK = true
	return w
}

// cRunToCompletion: the scheduling loop is left only when no step is waiting or
// running any more, or the run was stopped. "Every step whose dependencies let it
// proceed has been executed when the run ends" (C02) and "the outcome is computed
// from the final states" (C04) both need the polling loop to keep going while a node
// is still not-started or running:
//
//	(a) every edge that leaves the polling loop (loop condition, break, return) is
//	    taken only under the end-of-run test or under the cancel flag;
//	(b) the end-of-run test - by role the boolean function of the graph an exit of the
//	    loop consults - walks all nodes of the graph, gives the answer the exit needs
//	    only after the complete walk, and passes over a node only when its status is
//	    neither not-started nor running.
func cRunToCompletion(e *Env, s *Sched, rule string) {
	r := e.R
	r.Rule(rule, "DCS+ENUM", "the polling loop is left only when every node is terminal, or on cancel", 3)
	// the polling loop: the loop around the pass over the nodes - in the same function,
	// or around the call of the function the pass was moved into
	var poll *ir.Loop
	fn, site := s.GateFn, s.GateSite
	for d := 0; d < 4 && poll == nil; d++ {
		for _, l := range ir.Loops(fn) {
			if !l.Blocks[site.Block()] || l == s.GateLoop {
				continue
			}
			if s.GateLoop != nil && fn == s.GateFn && len(l.Blocks) <= len(s.GateLoop.Blocks) {
				continue
			}
			if poll == nil || len(l.Blocks) < len(poll.Blocks) {
				poll = l
			}
		}
		if poll != nil {
			break
		}
		us := ir.UniqueSite(fn)
		if _, plain := us.(*ssa.Call); us == nil || !plain {
			break
		}
		fn, site = us.Parent(), us
	}
	if poll == nil {
		r.Unknown("loop: the polling loop around the pass over the nodes", e.InstrPos(s.Launch), "no loop encloses the per-node pass")
		return
	}
	isGraph := func(t types.Type) bool { return strings.HasSuffix(ir.NamedType(t), ".ExecutionGraph") }
	// a literal "this boolean function of the graph answered pol"
	walks := map[*ssa.Function]nodeWalk{}
	predOf := func(v ssa.Value) (*ssa.Function, bool) {
		c, ok := ir.Resolve(v).(*ssa.Call)
		if !ok {
			return nil, false
		}
		g := c.Call.StaticCallee()
		if g == nil || !e.P.Funcs[g] || g.Blocks == nil || isCanceledCall(c) {
			return nil, false
		}
		if g.Signature.Results().Len() != 1 || g.Signature.Results().At(0).Type().String() != "bool" {
			return nil, false
		}
		hasGraph := false
		for _, a := range c.Call.Args {
			if isGraph(a.Type()) {
				hasGraph = true
			}
		}
		if !hasGraph {
			return nil, false
		}
		if _, done := walks[g]; !done {
			walks[g] = s.nodeWalk(g)
		}
		return g, walks[g].OK
	}
	var finished *ssa.Function
	var splitWalk []string
	nExit := 0
	for _, b := range sortedBlocks(poll.Blocks) {
		for _, sb := range b.Succs {
			if poll.Blocks[sb] {
				continue
			}
			nExit++
			lits := e.DCSEdgeTo(b, sb)
			accepted := func(alt []ir.NLit) bool {
				for _, l := range alt {
					if l.Kind != "val" {
						continue
					}
					if l.Pol && isCanceledCall(l.V) {
						return true
					}
					if p, ok := predOf(l.V); ok && walks[p].Exhaust == l.Pol && (finished == nil || finished == p) {
						finished = p
						return true
					}
				}
				return false
			}
			var holds func(alt []ir.NLit, d int) bool
			holds = func(alt []ir.NLit, d int) bool {
				if accepted(alt) {
					return true
				}
				if d > 2 {
					return false
				}
				for _, l := range alt {
					if l.Kind != "val" {
						continue
					}
					c, isC := ir.Resolve(l.V).(*ssa.Call)
					if !isC || c.Call.StaticCallee() == nil || !e.P.Funcs[c.Call.StaticCallee()] {
						continue
					}
					inner, ok := e.boolHelperReturns(c.Call.StaticCallee(), l.Pol)
					if !ok || len(inner) == 0 {
						continue
					}
					all := true
					for _, in := range inner {
						if !holds(in, d+1) {
							all = false
						}
					}
					if all {
						// a helper that walks the nodes itself and then asks a second walker
						// (`for … { if status == None { return false } }; return !g.IsRunning()`)
						// answers from two looks at the nodes that are not one snapshot
						if h := c.Call.StaticCallee(); len(ir.Loops(h)) > 0 && finished != nil && finished != h {
							splitWalk = append(splitWalk, shortName(h)+" walks the nodes and then asks "+shortName(finished))
						}
						return true
					}
				}
				return false
			}
			r.Check(holds(lits, 0), "loop: the polling loop is left only when the end-of-run test holds or the run was stopped", e.InstrPos(b.Instrs[len(b.Instrs)-1]),
				"the scheduling loop can end (and the run's outcome be computed, the handlers run) while a step is still waiting or running: steps that were free to run are never executed", e.FactsStr("exit taken under: ", lits))
		}
	}
	if nExit == 0 {
		r.Unknown("loop: exits of the polling loop", e.Pos(fn.Pos()), "the polling loop has no exit edge")
		return
	}
	if finished == nil {
		r.Bad("end-of-run test: the walk over the nodes an exit of the polling loop consults", e.Pos(fn.Pos()), "no exit of the polling loop tests a boolean function of the graph that walks its nodes")
		return
	}
	if len(splitWalk) > 0 {
		r.Bad("end-of-run test: answered from one walk over the nodes", e.Pos(fn.Pos()),
			"the end-of-run test looks at the nodes twice (first for steps that are waiting, then for steps that are running): a worker that hands a failed step back for its retry between the two looks (running -> not started) is seen by neither, the scheduling loop ends, and the step is never relaunched although attempts are left", splitWalk...)
	}
	w := walks[finished]
	r.Check(w.AllNodes, "end-of-run test: walks all nodes of the graph", e.Pos(w.Fn.Pos()), "the end-of-run test does not look at every node")
	none, running := s.val("NodeStatusNone"), s.val("NodeStatusRunning")
	r.Check(!w.Passed[none] && !w.Passed[running], "end-of-run test: a node that is not-started or running stops the walk", e.Pos(w.Fn.Pos()),
		"the end-of-run test passes over a node that is still waiting or running", "passes over a node with status in {"+strings.Join(w.Passed.Names(s.NS), ",")+"}")
	r.Check(!w.Early, "end-of-run test: the run counts as over only after the complete walk", e.Pos(w.Fn.Pos()),
		"the end-of-run test can say `over` before it has looked at every node")
}

func sortedBlocks(m map[*ssa.BasicBlock]bool) []*ssa.BasicBlock {
	var out []*ssa.BasicBlock
	for b := range m {
		out = append(out, b)
	}
	for i := 1; i < len(out); i++ {
		for j := i; j > 0 && out[j].Index < out[j-1].Index; j-- {
			out[j], out[j-1] = out[j-1], out[j]
		}
	}
	return out
}
