package rules

import (
	"go/token"
	"strings"

	"golang.org/x/tools/go/ssa"

	"bdcheck/internal/ir"
)

const mwRel = "internal/frontend/middleware"

func init() {
	register(&Prop{ID: "C17", Run: runC17,
		Technique: "static analysis: value-flow of the handler chain, dominating-condition sets of every pass site in the auth closures, who-may-call of the authenticated marker (go/ssa)",
		Decided: []string{
			"the handler returned by SetupGlobalMiddleware is prefixChecker(X) where X is wrapped by BasicAuth exactly under authBasic!=nil and by TokenAuth exactly under authToken!=nil, with the configured secrets as arguments; the API handler is used once, innermost; configureAPI returns the global middleware around api.Serve (C17.chain)",
			"every next.ServeHTTP in the two auth closures is dominated either by the licensed skip predicate or by ConstantTimeCompare(presented, configured)==1 together with the well-formedness tests; a configured secret read from a map is read with comma-ok and ok is tested (C17.pass-sites)",
			"skipBasicAuth can be true only under authToken!=nil; skipTokenAuth is the per-request authenticated marker, whose only constructor call is BasicAuth's success site (C17.skip-sound)",
			"prefixChecker routes the /api prefix to the authenticated chain and everything else to the default handler (C17.routing)",
			"the failure helpers answer 401 and the closure does not call next after them (C17.failed-is-401)",
			"every way of reaching a 401 in the two auth closures carries a licensed reason (header not parsable, empty field, user not configured, constant-time comparison failed): no additional filter can reject a configured secret presented in standard form (C17.reject-sites)",
		},
		NotDec: []string{"completeness beyond the absence of extra reject reasons: header grammar, base64, spacing handled by the library parsers", "go-swagger's raw-handler fallback when its handler field is nil (trusted generated code)", "path normalisation before the prefix test"},
	})
}

func runC17(e *Env) {
	c17Chain(e)
	c17PassSites(e)
	c17RejectSites(e)
	c17SkipSound(e)
	c17Routing(e)
}

func isGlobalRead(v ssa.Value, name string) bool {
	v = ir.Resolve(v)
	if g, ok := v.(*ssa.Global); ok {
		return g.Name() == name
	}
	u, ok := v.(*ssa.UnOp)
	if !ok || u.Op != token.MUL {
		return false
	}
	g, ok := u.X.(*ssa.Global)
	return ok && g.Name() == name
}

// wrapperCall: v = (F(args...))(inner) where F is the named middleware constructor.
func wrapperCall(v ssa.Value, ctor *ssa.Function) (outer, ctorCall *ssa.Call, ok bool) {
	c, isC := ir.Resolve(v).(*ssa.Call)
	if !isC {
		return nil, nil, false
	}
	cc, isCC := c.Call.Value.(*ssa.Call)
	if !isCC || cc.Call.StaticCallee() != ctor || ctor == nil {
		return nil, nil, false
	}
	return c, cc, true
}

func c17Chain(e *Env) {
	r := e.R
	r.Rule("C17.chain", "VF", "prefixChecker(BasicAuth?(TokenAuth?(…handler)))", 4)
	fn := e.Fn(mwRel, "SetupGlobalMiddleware")
	basic := e.Fn(mwRel, "BasicAuth")
	tok := e.Fn(mwRel, "TokenAuth")
	pc := e.Fn(mwRel, "prefixChecker")
	if fn == nil || basic == nil || tok == nil || pc == nil {
		return
	}
	// returned value
	var ret ssa.Value
	for _, b := range fn.Blocks {
		for _, in := range b.Instrs {
			if rt, ok := in.(*ssa.Return); ok {
				ret = ir.Resolve(RetVals(rt, 0)[0])
			}
		}
	}
	top, isTop := ret.(*ssa.Call)
	if !isTop || top.Call.StaticCallee() != pc {
		r.Bad("SetupGlobalMiddleware: returns prefixChecker(chain)", e.Pos(fn.Pos()), "the returned handler is not the prefix router around the authenticated chain: "+e.C.Render(ret))
		return
	}
	r.OK("SetupGlobalMiddleware: returns prefixChecker(chain)", e.InstrPos(top), "")
	// peel one optional wrapper layer guarded by a global != nil
	peel := func(v ssa.Value, ctor *ssa.Function, global, what string) (inner ssa.Value) {
		v = ir.Resolve(v)
		cons := "SetupGlobalMiddleware: " + what + " wraps the chain exactly under " + global + " != nil"
		isG := func(x ssa.Value) bool { return isGlobalRead(x, global) }
		otherAuth := func(lits []ir.NLit) bool {
			for _, l := range lits {
				if l.Kind == "cmp" && ir.IsNilConst(l.Y) {
					for _, g := range []string{"authBasic", "authToken"} {
						if g != global && isGlobalRead(l.X, g) {
							return true
						}
					}
				}
			}
			return false
		}
		ph, isPhi := v.(*ssa.Phi)
		if !isPhi {
			if _, _, ok := wrapperCall(v, ctor); ok {
				r.Bad(cons, e.Pos(fn.Pos()), what+" is applied unconditionally (requests fail when it is not configured)")
			} else {
				r.Bad(cons, e.Pos(fn.Pos()), what+" is never applied to the chain")
			}
			return v
		}
		okWrap, okPlain := false, false
		for k, ed := range ph.Edges {
			lits := e.DCSPhiEdge(ph.Block(), k)
			if outer, cc, ok := wrapperCall(ed, ctor); ok {
				if HasNilCmp(lits, isG, true) && !otherAuth(lits) {
					okWrap = true
				}
				inner = outer.Call.Args[0]
				// configured secret arguments
				switch what {
				case "TokenAuth":
					r.Check(e.IsFieldRead(cc.Call.Args[1], nil, "Token") && isGlobalRead(pathRoot(e, cc.Call.Args[1]), "authToken"),
						"SetupGlobalMiddleware: TokenAuth gets authToken.Token", e.InstrPos(cc), "the token middleware is not given the configured token")
				case "BasicAuth":
					okCreds := false
					if mm, isMM := ir.Resolve(cc.Call.Args[1]).(*ssa.MakeMap); isMM {
						for _, ref := range *mm.Referrers() {
							if mu, isMU := ref.(*ssa.MapUpdate); isMU && e.IsFieldRead(mu.Key, nil, "Username") && e.IsFieldRead(mu.Value, nil, "Password") {
								okCreds = true
							}
						}
					}
					r.Check(okCreds, "SetupGlobalMiddleware: BasicAuth gets {authBasic.Username: authBasic.Password}", e.InstrPos(cc), "the basic-auth middleware is not given the configured user and password")
				}
			} else {
				if HasNilCmp(lits, isG, false) {
					okPlain = true
				}
			}
		}
		r.Check(okWrap && okPlain, cons, e.InstrPos(ph.Block().Instrs[len(ph.Block().Instrs)-1]),
			what+" does not protect the chain exactly when "+global+" is configured (missing, or made dependent on the other auth method: with both configured a request could skip one check and never meet the other)")
		return inner
	}
	x := top.Call.Args[0]
	y := peel(x, basic, "authBasic", "BasicAuth")
	if y != nil {
		z := peel(y, tok, "authToken", "TokenAuth")
		_ = z
	}
	// the API handler parameter is used exactly once
	refs := *fn.Params[0].Referrers()
	uses := 0
	for _, ref := range refs {
		if _, isStore := ref.(*ssa.Store); isStore {
			continue
		}
		if _, isDbg := ref.(*ssa.DebugRef); isDbg {
			continue
		}
		uses++
	}
	r.Check(uses == 1, "SetupGlobalMiddleware: the API handler is used once (innermost)", e.Pos(fn.Pos()), sprintf("the raw API handler is referenced %d times: it may be reachable outside the authenticated chain", uses))
	// configureAPI returns setupGlobalMiddleware(api.Serve(…))
	cfg := e.FnQuiet("internal/frontend/gen/restapi", "configureAPI")
	sgm := e.FnQuiet("internal/frontend/gen/restapi", "setupGlobalMiddleware")
	if cfg == nil || sgm == nil {
		r.Unknown("restapi.configureAPI / setupGlobalMiddleware", "-", "not found")
		return
	}
	okCfg := false
	for _, b := range cfg.Blocks {
		for _, in := range b.Instrs {
			if rt, ok := in.(*ssa.Return); ok {
				if c, isC := ir.Resolve(RetVals(rt, 0)[0]).(*ssa.Call); isC && c.Call.StaticCallee() == sgm {
					if ic, isIC := ir.Resolve(c.Call.Args[0]).(*ssa.Call); isIC && strings.HasSuffix(ir.CalleeName(&ic.Call), "BlackdaggerAPI).Serve") {
						okCfg = true
					}
				}
			}
		}
	}
	r.Check(okCfg, "configureAPI: returns setupGlobalMiddleware(api.Serve(…))", e.Pos(cfg.Pos()), "the generated API handler is not wrapped by the global middleware")
	okS := false
	for _, ci := range ir.CallsIn(sgm, func(c *ssa.CallCommon) bool { return c.StaticCallee() == fn }) {
		if ir.Resolve(ci.Common().Args[0]) == ssa.Value(sgm.Params[0]) {
			okS = true
		}
	}
	r.Check(okS, "restapi.setupGlobalMiddleware: delegates to middleware.SetupGlobalMiddleware(handler)", e.Pos(sgm.Pos()), "the global middleware hook does not install the authenticated chain")
}

func pathRoot(e *Env, v ssa.Value) ssa.Value {
	p, ok := e.C.PathOf(v)
	if !ok {
		return v
	}
	return p.Root
}

// innermostHandler: the http.HandlerFunc closure (w, r) nested in a middleware constructor.
func innermostHandler(f *ssa.Function) *ssa.Function {
	var best *ssa.Function
	for _, g := range ir.WithClosures(f) {
		if g != f && len(g.Params) == 2 && len(g.AnonFuncs) == 0 {
			best = g
		}
	}
	return best
}

func nextCalls(h *ssa.Function) []ssa.CallInstruction {
	return ir.CallsIn(h, func(c *ssa.CallCommon) bool {
		if !c.IsInvoke() || c.Method.Name() != "ServeHTTP" {
			return false
		}
		v := ir.Resolve(c.Value)
		if fv, ok := v.(*ssa.FreeVar); ok && fv.Name() == "next" {
			return true
		}
		if p, ok := v.(*ssa.Parameter); ok && p.Name() == "next" {
			return true
		}
		return false
	})
}

// ctcEq1 finds a literal ConstantTimeCompare(a,b) == 1 and returns the call.
// c17RejectSites: the dual of pass-sites, for the half "a request carrying the
// configured credentials in standard form always passes". Every way of reaching
// a 401 answer in an auth closure must carry one of the licensed reasons for
// rejecting - the header could not be parsed (r.BasicAuth() !ok, fewer fields
// than needed), the presented field is empty, the user is not configured, or
// the constant-time comparison with the configured secret failed. Any other
// reason (a syntax filter on the presented secret, a length cap, ...) rejects
// some configured secret presented in standard form.
func c17RejectSites(e *Env) {
	r := e.R
	r.Rule("C17.reject-sites", "RC", "every way to a 401 carries a licensed reason", 4)
	for _, ctor := range []struct{ name, helper string }{{"BasicAuth", "basicAuthFailed"}, {"TokenAuth", "tokenAuthFailed"}} {
		fn := e.FnQuiet(mwRel, ctor.name)
		if fn == nil {
			continue
		}
		h := innermostHandler(fn)
		if h == nil {
			continue
		}
		ff := e.Facts(h)
		for _, ci := range ir.CallsIn(h, func(c *ssa.CallCommon) bool { return c.StaticCallee() != nil && c.StaticCallee().Name() == ctor.helper }) {
			dnf, ok := ir.ReachingCondition(h.Blocks[0], ci.Block(), 32)
			if !ok {
				r.Unknown(ctor.name+": reasons for answering 401", e.InstrPos(ci), "reaching condition too large")
				continue
			}
			var bad []string
			for _, cj := range dnf {
				for _, conj := range ff.ExpandDNFRegion(h.Blocks[0], []ir.Lit(cj)) {
					lits := ir.NormalizeAll(conj)
					licensed := false
					for _, l := range lits {
						if c17LicensedReject(e, l) {
							licensed = true
						}
					}
					if !licensed {
						bad = append(bad, "{"+strings.Join(e.RenderN(lits), " ; ")+"}")
					}
				}
			}
			r.Check(len(dnf) > 0 && len(bad) == 0, ctor.name+": 401 only for an unparsable header, an empty field, an unknown user or a failed comparison with the configured secret", e.InstrPos(ci),
				"a request is rejected for a reason that is not a mismatch with the configured credentials: some configured secret, presented in the standard form, is answered 401 (the handler is never reached)",
				"ways to this 401 without a licensed reason: "+strings.Join(bad, " | "))
		}
	}
}

func c17LicensedReject(e *Env, l ir.NLit) bool {
	fromHeaderSplit := func(v ssa.Value) bool {
		fl := &ir.Flow{C: e.C, Through: func(c *ssa.Call) []int {
			if ir.IsCallTo(&c.Call, "strings.Split", "strings.SplitN", "strings.Fields", "strings.TrimPrefix", "strings.TrimSpace") {
				return []int{0}
			}
			return nil
		}, Source: func(x ssa.Value) bool {
			cc, isC := x.(*ssa.Call)
			return isC && ir.IsCallTo(&cc.Call, "(net/http.Header).Get")
		}}
		return fl.Any(v)
	}
	switch l.Kind {
	case "val":
		if l.Pol {
			return false
		}
		if ex, ok := ir.Resolve(l.V).(*ssa.Extract); ok {
			// !ok of r.BasicAuth()
			if cc, isC := ex.Tuple.(*ssa.Call); isC && ir.IsCallTo(&cc.Call, "(*net/http.Request).BasicAuth") && ex.Index == 2 {
				return true
			}
			// user not configured: comma-ok map lookup false
			if lk, isL := ex.Tuple.(*ssa.Lookup); isL && lk.CommaOk && ex.Index == 1 {
				return true
			}
		}
	case "cmp":
		// ConstantTimeCompare(...) != 1
		if c, ok := ir.Resolve(l.X).(*ssa.Call); ok && ir.IsCallTo(&c.Call, "crypto/subtle.ConstantTimeCompare") {
			if k, isK := ir.ConstInt(l.Y); isK && ((l.Op == token.NEQ && k == 1) || (l.Op == token.EQL && k == 0)) {
				return true
			}
		}
		// len(fields of the header) < k
		if l.Op == token.LSS || l.Op == token.LEQ {
			if x, isLen := lenArg(l.X); isLen && fromHeaderSplit(x) {
				if _, isK := ir.ConstInt(l.Y); isK {
					return true
				}
			}
		}
		// len(header field) == 0
		if l.Op == token.EQL {
			if x, isLen := lenArg(l.X); isLen && fromHeaderSplit(x) {
				if k, isK := ir.ConstInt(l.Y); isK && k == 0 {
					return true
				}
			}
		}
		// a header field is empty
		if l.Op == token.EQL {
			if s, isS := ir.ConstString(l.Y); isS && s == "" && fromHeaderSplit(l.X) {
				return true
			}
		}
	}
	return false
}

func ctcEq1(lits []ir.NLit) *ssa.Call {
	for _, l := range lits {
		if l.Kind == "cmp" && l.Op == token.EQL {
			if k, ok := ir.ConstInt(l.Y); ok && k == 1 {
				if c, ok := ir.Resolve(l.X).(*ssa.Call); ok && ir.IsCallTo(&c.Call, "crypto/subtle.ConstantTimeCompare") {
					return c
				}
			}
		}
	}
	return nil
}

func stripBytes(v ssa.Value) ssa.Value {
	v = ir.Resolve(v)
	if cv, ok := v.(*ssa.Convert); ok {
		return ir.Resolve(cv.X)
	}
	return v
}

func c17PassSites(e *Env) {
	r := e.R
	r.Rule("C17.pass-sites", "DCS", "every pass site is licensed", 4)
	basic := e.Fn(mwRel, "BasicAuth")
	tok := e.Fn(mwRel, "TokenAuth")
	skipB := e.FnQuiet(mwRel, "skipBasicAuth")
	skipT := e.FnQuiet(mwRel, "skipTokenAuth")
	if basic == nil || tok == nil {
		return
	}
	fail := func(h *ssa.Function, helper string) {
		// C17.failed-is-401 part: after the failure helper no next call
		for _, ci := range ir.CallsIn(h, func(c *ssa.CallCommon) bool { return c.StaticCallee() != nil && c.StaticCallee().Name() == helper }) {
			bad, _ := ir.Bypass(ci, nil, ir.PathQuery{Bad: func(in ssa.Instruction) bool {
				for _, nc := range nextCalls(h) {
					if nc == in {
						return true
					}
				}
				return false
			}})
			r.Check(bad == nil, shortName(h)+": no pass after "+helper, e.InstrPos(ci), "the request is passed on after the 401 answer was written")
		}
	}
	// ---- BasicAuth
	if h := innermostHandler(basic); h != nil {
		for _, nc := range nextCalls(h) {
			lits := e.DCS(nc)
			pos := e.InstrPos(nc)
			if skipB != nil && HasVal(lits, IsCallOf(skipB), true) {
				r.OK("BasicAuth: pass under skipBasicAuth(header)", pos, "licensed skip: a token check follows (C17.skip-sound)")
				continue
			}
			c := ctcEq1(lits)
			ok, why := c != nil, "the request is passed on without a successful constant-time comparison of the presented password with the configured one"
			if ok {
				a, b := stripBytes(c.Call.Args[0]), stripBytes(c.Call.Args[1])
				// presented: from r.BasicAuth(); configured: comma-ok lookup in creds with ok tested
				presented := func(v ssa.Value) bool {
					ex, isE := v.(*ssa.Extract)
					if !isE {
						return false
					}
					cc, isC := ex.Tuple.(*ssa.Call)
					return isC && ir.IsCallTo(&cc.Call, "(*net/http.Request).BasicAuth") && ex.Index == 1
				}
				configured := func(v ssa.Value) (bool, string) {
					ex, isE := v.(*ssa.Extract)
					if isE {
						if lk, isL := ex.Tuple.(*ssa.Lookup); isL && lk.CommaOk && ex.Index == 0 {
							// ok tested true
							okTested := HasVal(lits, func(x ssa.Value) bool {
								e2, isE2 := ir.Resolve(x).(*ssa.Extract)
								return isE2 && e2.Tuple == ssa.Value(lk) && e2.Index == 1
							}, true)
							// key: the presented user
							keyOK := false
							if kx, isK := ir.Resolve(lk.Index).(*ssa.Extract); isK {
								if cc, isC := kx.Tuple.(*ssa.Call); isC && ir.IsCallTo(&cc.Call, "(*net/http.Request).BasicAuth") && kx.Index == 0 {
									keyOK = true
								}
							}
							if !okTested {
								return false, "the configured password is looked up for the presented user but the lookup's ok result is not required: an unconfigured user yields the empty password, which an empty presented password matches"
							}
							return keyOK, "the credential lookup is not keyed by the presented user"
						}
					}
					if lk, isL := v.(*ssa.Lookup); isL && !lk.CommaOk {
						return false, "the configured password is read with a plain map lookup: for an unconfigured user it is the empty string, which an empty presented password matches"
					}
					return false, "the second operand of the comparison is not the configured password: " + e.C.Render(v)
				}
				switch {
				case presented(a):
					ok, why = configured(b)
				case presented(b):
					ok, why = configured(a)
				default:
					ok, why = false, "neither operand of the comparison is the password presented in the request"
				}
				// r.BasicAuth() ok
				if ok && !HasVal(lits, func(x ssa.Value) bool {
					ex, isE := ir.Resolve(x).(*ssa.Extract)
					if !isE || ex.Index != 2 {
						return false
					}
					cc, isC := ex.Tuple.(*ssa.Call)
					return isC && ir.IsCallTo(&cc.Call, "(*net/http.Request).BasicAuth")
				}, true) {
					ok, why = false, "the ok result of r.BasicAuth() is not required"
				}
			}
			r.Check(ok, "BasicAuth: final pass under ok ∧ user configured ∧ ConstantTimeCompare(pass, configured)==1", pos, why, e.FactsStr("dominating conditions: ", lits))
		}
		fail(h, "basicAuthFailed")
	} else {
		r.Unknown("BasicAuth: handler closure", e.Pos(basic.Pos()), "not found")
	}
	// ---- TokenAuth
	if h := innermostHandler(tok); h != nil {
		for _, nc := range nextCalls(h) {
			lits := e.DCS(nc)
			pos := e.InstrPos(nc)
			if skipT != nil && HasVal(lits, IsCallOf(skipT), true) {
				r.OK("TokenAuth: pass under skipTokenAuth(request)", pos, "licensed skip: basic auth already succeeded (C17.skip-sound)")
				continue
			}
			c := ctcEq1(lits)
			ok, why := c != nil, "the request is passed on without a successful constant-time comparison of the presented token with the configured one"
			if ok {
				a, b := stripBytes(c.Call.Args[0]), stripBytes(c.Call.Args[1])
				isCfg := func(v ssa.Value) bool {
					if fv, isFV := v.(*ssa.FreeVar); isFV {
						return fv.Name() == "token"
					}
					// the configured token: the string parameter of the middleware constructor
					if p, isP := v.(*ssa.Parameter); isP && p.Parent() == tok && len(tok.Params) == 2 {
						return p == tok.Params[1]
					}
					return false
				}
				fromHeader := func(v ssa.Value) bool {
					fl := &ir.Flow{C: e.C, Through: func(c *ssa.Call) []int {
						if ir.IsCallTo(&c.Call, "strings.Split", "strings.Fields", "strings.TrimPrefix", "strings.TrimSpace") {
							return []int{0}
						}
						return nil
					}, Source: func(x ssa.Value) bool {
						cc, isC := x.(*ssa.Call)
						return isC && ir.IsCallTo(&cc.Call, "(net/http.Header).Get")
					}}
					return fl.Any(v)
				}
				var pres ssa.Value
				switch {
				case isCfg(b) && fromHeader(a):
					pres = a
				case isCfg(a) && fromHeader(b):
					pres = b
				default:
					ok, why = false, "the comparison is not between the Authorization header's token and the configured token"
				}
				if ok {
					nonEmpty := false
					for _, l := range lits {
						if l.Kind == "cmp" && l.Op == token.NEQ && ir.Resolve(l.X) == pres {
							if s, isS := ir.ConstString(l.Y); isS && s == "" {
								nonEmpty = true
							}
						}
					}
					if !nonEmpty {
						ok, why = false, "an empty presented token is not rejected before the comparison (an empty configured token would match)"
					}
				}
			}
			r.Check(ok, "TokenAuth: final pass under well-formed header ∧ token!=\"\" ∧ ConstantTimeCompare(token, configured)==1", pos, why, e.FactsStr("dominating conditions: ", lits))
		}
		fail(h, "tokenAuthFailed")
	} else {
		r.Unknown("TokenAuth: handler closure", e.Pos(tok.Pos()), "not found")
	}
	// failure helpers write 401
	r.Rule("C17.failed-is-401", "VF", "failure helpers answer 401", 2)
	for _, name := range []string{"basicAuthFailed", "tokenAuthFailed"} {
		f := e.Fn(mwRel, name)
		if f == nil {
			continue
		}
		ok := false
		for _, ci := range ir.CallsIn(f, func(c *ssa.CallCommon) bool { return c.IsInvoke() && c.Method.Name() == "WriteHeader" }) {
			if k, isC := ir.ConstInt(ci.Common().Args[0]); isC && k == 401 {
				ok = true
			}
		}
		r.Check(ok, name+": WriteHeader(401)", e.Pos(f.Pos()), "a failed authentication is not answered with 401")
	}
}

func c17SkipSound(e *Env) {
	r := e.R
	r.Rule("C17.skip-sound", "DCS+WMC", "skip predicates are sound", 3)
	sb := e.Fn(mwRel, "skipBasicAuth")
	if sb != nil {
		ff := e.Facts(sb)
		ok := true
		n := 0
		for _, b := range sb.Blocks {
			for _, in := range b.Instrs {
				rt, isR := in.(*ssa.Return)
				if !isR {
					continue
				}
				v := RetVals(rt, 0)[0]
				if bv, isC := ir.ConstBool(v); isC && !bv {
					continue
				}
				n++
				lits := ir.NormalizeAll(ff.Expand(append(ff.DCS(b), ir.Lit{Cond: v, Pol: true})))
				if !HasNilCmp(lits, func(x ssa.Value) bool { return isGlobalRead(x, "authToken") }, true) {
					ok = false
				}
				hasBearer := false
				for _, l := range lits {
					if l.Kind == "cmp" && l.Op == token.EQL {
						if s, isS := ir.ConstString(l.Y); isS && s == "Bearer" {
							hasBearer = true
						}
					}
				}
				if !hasBearer {
					ok = false
				}
			}
		}
		r.Check(ok && n > 0, "skipBasicAuth: true only under authToken != nil ∧ scheme == \"Bearer\"", e.Pos(sb.Pos()),
			"basic auth can be skipped although no token check follows in the chain (or for a non-Bearer header)")
	}
	// skipTokenAuth == isAuthenticated(r.Context())
	st := e.Fn(mwRel, "skipTokenAuth")
	ia := e.Fn(mwRel, "isAuthenticated")
	wa := e.Fn(mwRel, "withAuthenticated")
	if st != nil && ia != nil {
		ok := false
		for _, b := range st.Blocks {
			for _, in := range b.Instrs {
				if rt, isR := in.(*ssa.Return); isR {
					if c, isC := ir.Resolve(RetVals(rt, 0)[0]).(*ssa.Call); isC && c.Call.StaticCallee() == ia {
						ok = true
					}
				}
			}
		}
		r.Check(ok, "skipTokenAuth: returns isAuthenticated(request context)", e.Pos(st.Pos()), "token auth is skipped on something other than the per-request authenticated marker")
		// isAuthenticated true only for a value asserted to *authCtx with ok and its flag
		okIA := true
		ff := e.Facts(ia)
		for _, b := range ia.Blocks {
			for _, in := range b.Instrs {
				rt, isR := in.(*ssa.Return)
				if !isR {
					continue
				}
				v := RetVals(rt, 0)[0]
				if bv, isC := ir.ConstBool(v); isC && !bv {
					continue
				}
				lits := ir.NormalizeAll(ff.Expand(append(ff.DCS(b), ir.Lit{Cond: v, Pol: true})))
				assertOK := HasVal(lits, func(x ssa.Value) bool {
					ex, isE := ir.Resolve(x).(*ssa.Extract)
					if !isE || ex.Index != 1 {
						return false
					}
					ta, isT := ex.Tuple.(*ssa.TypeAssert)
					return isT && strings.HasSuffix(ta.AssertedType.String(), "middleware.authCtx")
				}, true)
				flag := HasVal(lits, func(x ssa.Value) bool { return e.IsFieldRead(x, nil, "authenticated") }, true)
				if !assertOK || !flag {
					okIA = false
				}
			}
		}
		r.Check(okIA, "isAuthenticated: true only for the *authCtx marker with its flag set", e.Pos(ia.Pos()), "the authenticated marker can be satisfied by something other than the value BasicAuth installs")
	}
	if wa != nil {
		basic := e.FnQuiet(mwRel, "BasicAuth")
		sites := e.StaticCallSites(wa)
		ok := len(sites) > 0
		for _, ci := range sites {
			if rootFn(ci.Parent()) != basic {
				ok = false
				continue
			}
			if ctcEq1(e.DCS(ci)) == nil {
				ok = false
			}
		}
		r.Check(ok, "withAuthenticated: called only at BasicAuth's success site", e.Pos(wa.Pos()),
			"the authenticated marker is installed somewhere other than after a successful basic-auth comparison")
	}
}

func c17Routing(e *Env) {
	r := e.R
	r.Rule("C17.routing", "DCS", "/api → authenticated chain, everything else → default handler", 2)
	pc := e.Fn(mwRel, "prefixChecker")
	if pc == nil {
		return
	}
	isAPI := func(lits []ir.NLit, pol bool) bool {
		return HasVal(lits, func(x ssa.Value) bool {
			c, ok := ir.Resolve(x).(*ssa.Call)
			if !ok || !ir.IsCallTo(&c.Call, "strings.HasPrefix") {
				return false
			}
			s, _ := ir.ConstString(c.Call.Args[1])
			return s == "/api"
		}, pol)
	}
	nNext, nDef := 0, 0
	for _, f := range ir.WithClosures(pc) {
		for _, ci := range nextCalls(f) {
			nNext++
			r.Check(isAPI(e.DCS(ci), true), "prefixChecker: authenticated chain serves the /api prefix", e.InstrPos(ci),
				"the authenticated chain is not what serves the /api paths", e.FactsStr("dominating conditions: ", e.DCS(ci)))
		}
		for _, ci := range ir.CallsIn(f, func(c *ssa.CallCommon) bool {
			return c.IsInvoke() && c.Method.Name() == "ServeHTTP" && isGlobalRead(c.Value, "defaultHandler")
		}) {
			nDef++
			r.Check(isAPI(e.DCS(ci), false), "prefixChecker: the unauthenticated default handler serves only non-/api paths", e.InstrPos(ci),
				"API paths can be served by the default (unauthenticated) handler", e.FactsStr("dominating conditions: ", e.DCS(ci)))
		}
	}
	if nNext == 0 || nDef == 0 {
		r.Unknown("prefixChecker: routing sites", e.Pos(pc.Pos()), sprintf("next calls=%d default calls=%d", nNext, nDef))
	}
	// the default handler global is written only by Setup from Options.Handler
	setup := e.Fn(mwRel, "Setup")
	if setup != nil {
		ok := false
		for _, b := range setup.Blocks {
			for _, in := range b.Instrs {
				if st, isS := in.(*ssa.Store); isS {
					if g, isG := st.Addr.(*ssa.Global); isG && g.Name() == "authBasic" && e.IsFieldRead(st.Val, nil, "AuthBasic") {
						ok = true
					}
				}
			}
		}
		ok2 := false
		for _, b := range setup.Blocks {
			for _, in := range b.Instrs {
				if st, isS := in.(*ssa.Store); isS {
					if g, isG := st.Addr.(*ssa.Global); isG && g.Name() == "authToken" && e.IsFieldRead(st.Val, nil, "AuthToken") {
						ok2 = true
					}
				}
			}
		}
		r.Check(ok && ok2, "middleware.Setup: authBasic/authToken taken from the options", e.Pos(setup.Pos()), "the configured credentials are not installed into the middleware's package state")
	}
}
