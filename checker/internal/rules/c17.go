package rules

import (
	"go/token"
	"go/types"
	"strings"

	"golang.org/x/tools/go/ssa"

	"bdcheck/internal/ir"
)

const mwRel = "internal/frontend/middleware"

func init() {
	register(&Prop{ID: "C17", Run: runC17,
		Technique: "static analysis: value-flow of the handler chain, dominating-condition sets of every pass site in the auth closures, who-may-call of the authenticated marker (go/ssa)",
		Decided: []string{
			"the handler returned by SetupGlobalMiddleware is prefixChecker(X) where X is wrapped by BasicAuth exactly under authBasic!=nil and by TokenAuth exactly under authToken!=nil, with the configured secrets as arguments; the API handler is used once, innermost; configureAPI returns the global middleware around api.Serve (C17.chain)",
			"every next.ServeHTTP in the two auth closures is dominated either by the licensed skip predicate or by ConstantTimeCompare(presented, configured)==1 together with the well-formedness tests; a configured secret read from a map is read with comma-ok and ok is tested (C17.pass-sites)",
			"skipBasicAuth can be true only under authToken!=nil; skipTokenAuth is the per-request authenticated marker, whose only constructor call is BasicAuth's success site (C17.skip-sound)",
			"prefixChecker routes the /api prefix to the authenticated chain and everything else to the default handler (C17.routing)",
			"the failure helpers answer 401 and the closure does not call next after them (C17.failed-is-401)",
			"every way of reaching a 401 in the two auth closures carries a licensed reason (header not parsable, empty field, user not configured, constant-time comparison failed): no additional filter can reject a configured secret presented in standard form (C17.reject-sites)",
		},
		NotDec: []string{"completeness beyond the absence of extra reject reasons: header grammar, base64, spacing handled by the library parsers", "go-swagger's raw-handler fallback when its handler field is nil (trusted generated code)", "path normalisation before the prefix test"},
	})
}

func runC17(e *Env) {
	m := c17Resolve(e)
	if m == nil {
		return
	}
	c17Chain(e, m)
	c17PassSites(e, m)
	c17RejectSites(e, m)
	c17SkipSound(e, m)
	c17Routing(e, m)
}

// mwModel: the parts of the middleware package by what they are. The exported
// constructors (BasicAuth, TokenAuth, SetupGlobalMiddleware, Setup) and the
// exported option types are the package's API; everything else - the helper
// predicates, the failure writers, the package variables, the captured
// variables - is found by type and by what it does.
type mwModel struct {
	e          *Env
	pkg        *ssa.Package
	setupGM    *ssa.Function
	basic, tok *ssa.Function
	gBasic     *ssa.Global // the configured basic credentials (*AuthBasic)
	gToken     *ssa.Global // the configured token (*AuthToken)
	gDefault   *ssa.Global // the unauthenticated default handler (http.Handler)
	rejecters  map[*ssa.Function]bool
	markerT    string // asserted type of the per-request authenticated marker
	binds      []map[ssa.Value]ssa.Value
	undo       func()
}

func c17Resolve(e *Env) *mwModel {
	r := e.R
	r.Rule("C17.anchors", "anchor resolution", "middleware package roles", 0)
	m := &mwModel{e: e, rejecters: map[*ssa.Function]bool{}}
	m.setupGM = e.Fn(mwRel, "SetupGlobalMiddleware")
	m.basic = e.Fn(mwRel, "BasicAuth")
	m.tok = e.Fn(mwRel, "TokenAuth")
	if m.setupGM == nil || m.basic == nil || m.tok == nil {
		return nil
	}
	m.pkg = m.setupGM.Package()
	for _, mem := range m.pkg.Members {
		g, ok := mem.(*ssa.Global)
		if !ok {
			continue
		}
		t := g.Type().(*types.Pointer).Elem()
		switch {
		case strings.HasSuffix(ir.NamedType(t), "middleware.AuthBasic"):
			m.gBasic = g
		case strings.HasSuffix(ir.NamedType(t), "middleware.AuthToken"):
			m.gToken = g
		case ir.NamedType(t) == "net/http.Handler":
			m.gDefault = g
		}
	}
	if m.gBasic == nil || m.gToken == nil || m.gDefault == nil {
		r.Unknown("middleware package state", mwRel, "the package variables holding *AuthBasic, *AuthToken and the default http.Handler were not all found")
		return nil
	}
	// the failure writers: functions of the package that answer 401
	for _, f := range e.RepoFuncsSorted() {
		if rootFn(f).Package() != m.pkg {
			continue
		}
		for _, ci := range ir.CallsIn(f, func(c *ssa.CallCommon) bool { return c.IsInvoke() && c.Method.Name() == "WriteHeader" }) {
			if k, isC := ir.ConstInt(ci.Common().Args[0]); isC && k == 401 {
				m.rejecters[f] = true
			}
		}
	}
	return m
}

func (m *mwModel) isGlobal(v ssa.Value, g *ssa.Global) bool {
	v = ir.Resolve(v)
	if x, ok := v.(*ssa.Global); ok {
		return x == g
	}
	u, ok := v.(*ssa.UnOp)
	if !ok || u.Op != token.MUL {
		return false
	}
	x, ok := u.X.(*ssa.Global)
	return ok && x == g
}

// handlerParam: v is (a captured copy of) an http.Handler parameter of an
// enclosing function - the `next` of a middleware, whatever it is called.
func handlerParam(v ssa.Value) (*ssa.Parameter, bool) {
	r := ir.Resolve(v)
	if p, ok := r.(*ssa.Parameter); ok && ir.NamedType(p.Type()) == "net/http.Handler" {
		return p, true
	}
	// the wrapped handler kept in a field of the handler object (`h.next`)
	if u, ok := r.(*ssa.UnOp); ok && u.Op == token.MUL && ir.NamedType(u.Type()) == "net/http.Handler" {
		if fa, isF := u.X.(*ssa.FieldAddr); isF {
			if p, isP := ir.Resolve(fa.X).(*ssa.Parameter); isP && p.Parent().Signature.Recv() != nil && p == p.Parent().Params[0] {
				return p, true
			}
		}
	}
	return nil, false
}

// passCalls: the calls of h that hand the request on to the wrapped handler.
func passCalls(h *ssa.Function) []ssa.CallInstruction {
	return ir.CallsIn(h, func(c *ssa.CallCommon) bool {
		if !c.IsInvoke() || c.Method.Name() != "ServeHTTP" {
			return false
		}
		_, ok := handlerParam(c.Value)
		return ok
	})
}

// rejectCalls: the calls of h that answer 401 (a failure writer of the package,
// or WriteHeader(401) itself).
func (m *mwModel) rejectCalls(h *ssa.Function) []ssa.CallInstruction {
	return ir.CallsIn(h, func(c *ssa.CallCommon) bool {
		if g := c.StaticCallee(); g != nil && m.rejecters[g] {
			return true
		}
		if c.IsInvoke() && c.Method.Name() == "WriteHeader" {
			k, isC := ir.ConstInt(c.Args[0])
			return isC && k == 401
		}
		return false
	})
}

// fromAuthHeader: v is (a part of) the request's Authorization header, through
// the string helpers and through helpers of the package that return it.
func (m *mwModel) fromAuthHeader(v ssa.Value) bool {
	var walk func(v ssa.Value, d int) bool
	walk = func(v ssa.Value, d int) bool {
		if d > 10 {
			return false
		}
		v = ir.Deep(v)
		switch x := v.(type) {
		case *ssa.Phi:
			for _, ed := range x.Edges {
				if !walk(ed, d+1) {
					return false
				}
			}
			return len(x.Edges) > 0
		case *ssa.UnOp:
			if x.Op == token.MUL {
				return walk(x.X, d+1)
			}
		case *ssa.IndexAddr:
			return walk(x.X, d+1)
		case *ssa.Index:
			return walk(x.X, d+1)
		case *ssa.Slice:
			return walk(x.X, d+1)
		case *ssa.Convert:
			return walk(x.X, d+1)
		case *ssa.Extract:
			// before, after, found := strings.Cut(s, sep)
			if c, isC := x.Tuple.(*ssa.Call); isC && ir.IsCallTo(&c.Call, "strings.Cut", "strings.CutPrefix", "strings.CutSuffix") && x.Index < 2 {
				return walk(c.Call.Args[0], d+1)
			}
		case *ssa.Call:
			if ir.IsCallTo(&x.Call, "(net/http.Header).Get") {
				return true
			}
			if ir.IsCallTo(&x.Call, "strings.Split", "strings.SplitN", "strings.Fields", "strings.TrimPrefix", "strings.TrimSpace") {
				return walk(x.Call.Args[0], d+1)
			}
			if g := x.Call.StaticCallee(); g != nil && rootFn(g).Package() == m.pkg && g.Blocks != nil {
				n := 0
				for _, b := range g.Blocks {
					if rt, ok := b.Instrs[len(b.Instrs)-1].(*ssa.Return); ok && len(rt.Results) == 1 {
						n++
						if !walk(rt.Results[0], d+1) {
							return false
						}
					}
				}
				return n > 0
			}
		}
		return false
	}
	return walk(v, 0)
}

// expandAt: the ways of reaching an instruction of the handler closure, each as
// a conjunction in which the package's boolean helpers are replaced by their own
// conditions.
// forWays calls fn for every way of reaching an instruction of the handler, with
// the package's helpers and predicates expanded and their parameter bindings in
// force (so that values inside a predicate called from several places resolve to
// this call's arguments).
func (m *mwModel) forWays(h *ssa.Function, in ssa.Instruction, fn func(lits []ir.NLit)) bool {
	e := m.e
	ff := e.Facts(h)
	dnf, ok := ir.ReachingCondition(h.Blocks[0], in.Block(), 32)
	if !ok || len(dnf) == 0 {
		return false
	}
	n := 0
	for _, cj := range dnf {
		for _, conj := range ff.ExpandDNFRegion(h.Blocks[0], []ir.Lit(cj)) {
			e.ways(ir.NormalizeAll(conj), func(lits []ir.NLit) {
				n++
				fn(lits)
			})
		}
	}
	return n > 0 && n <= 256
}

func (m *mwModel) expandAt(h *ssa.Function, in ssa.Instruction) ([][]ir.NLit, bool) {
	e := m.e
	m.leave()
	m.binds = nil
	ff := e.Facts(h)
	dnf, ok := ir.ReachingCondition(h.Blocks[0], in.Block(), 32)
	if !ok || len(dnf) == 0 {
		return nil, false
	}
	var out [][]ir.NLit
	for _, cj := range dnf {
		for _, conj := range ff.ExpandDNFRegion(h.Blocks[0], []ir.Lit(cj)) {
			for _, alt := range e.expandBound(ir.NormalizeAll(conj)) {
				bind := map[ssa.Value]ssa.Value{}
				conflict := map[ssa.Value]bool{}
				var plain []ir.NLit
				for _, bl := range alt {
					plain = append(plain, bl.NLit)
					for k, v := range bl.Bind {
						if old, has := bind[k]; has && old != v {
							conflict[k] = true
						}
						bind[k] = v
					}
				}
				for k := range conflict {
					delete(bind, k)
				}
				for _, t := range e.expandTableLits(plain) {
					out = append(out, t)
					m.binds = append(m.binds, bind)
				}
			}
		}
	}
	return out, len(out) > 0 && len(out) <= 256
}

// enter puts the parameter bindings of alternative i (of the last expandAt) in
// force; leave removes them.
func (m *mwModel) enter(i int) {
	m.leave()
	if i < len(m.binds) {
		m.undo = ir.SetOverride(m.binds[i])
	}
}

func (m *mwModel) leave() {
	if m.undo != nil {
		m.undo()
		m.undo = nil
	}
}

// wrapperCall: v = (F(args...))(inner) where F is the named middleware constructor.
func wrapperCall(v ssa.Value, ctor *ssa.Function) (outer, ctorCall *ssa.Call, ok bool) {
	c, isC := ir.Resolve(v).(*ssa.Call)
	if !isC {
		return nil, nil, false
	}
	cc, isCC := c.Call.Value.(*ssa.Call)
	if !isCC || cc.Call.StaticCallee() != ctor || ctor == nil {
		return nil, nil, false
	}
	return c, cc, true
}

// through: the value a call of a single-call-site handler→handler helper of the
// package stands for (the helper's returned value), repeatedly.
func (m *mwModel) through(v ssa.Value) ssa.Value {
	for d := 0; d < 6; d++ {
		v = ir.Deep(v)
		c, ok := v.(*ssa.Call)
		if !ok {
			return v
		}
		g := c.Call.StaticCallee()
		if g == nil || rootFn(g).Package() != m.pkg || g.Blocks == nil || ir.UniqueSite(g) == nil {
			return v
		}
		var rets []ssa.Value
		for _, b := range g.Blocks {
			if rt, isR := b.Instrs[len(b.Instrs)-1].(*ssa.Return); isR && len(rt.Results) == 1 {
				rets = append(rets, RetVals(rt, 0)...)
			}
		}
		if len(rets) != 1 {
			return v
		}
		// the router and other wrappers that build a new handler are not looked through
		if _, isMI := ir.Resolve(rets[0]).(*ssa.MakeInterface); isMI {
			return v
		}
		if _, isCT := ir.Resolve(rets[0]).(*ssa.ChangeType); isCT {
			return v
		}
		v = rets[0]
	}
	return v
}

func c17Chain(e *Env, m *mwModel) {
	r := e.R
	r.Rule("C17.chain", "VF", "prefixChecker(BasicAuth?(TokenAuth?(…handler)))", 4)
	fn, basic, tok := m.setupGM, m.basic, m.tok
	// returned value
	var ret ssa.Value
	for _, b := range fn.Blocks {
		for _, in := range b.Instrs {
			if rt, ok := in.(*ssa.Return); ok {
				ret = ir.Resolve(RetVals(rt, 0)[0])
			}
		}
	}
	routerFn, chain := m.routerOf(ret)
	if routerFn == nil {
		r.Bad("SetupGlobalMiddleware: returns prefixChecker(chain)", e.Pos(fn.Pos()), "the returned handler is not the prefix router around the authenticated chain: "+e.C.Render(ret))
		return
	}
	r.OK("SetupGlobalMiddleware: returns prefixChecker(chain)", e.Pos(fn.Pos()), "")
	// peel one optional wrapper layer guarded by a package variable != nil
	peel := func(v ssa.Value, ctor *ssa.Function, global *ssa.Global, gname, what string) (inner ssa.Value) {
		v = m.through(v)
		cons := "SetupGlobalMiddleware: " + what + " wraps the chain exactly under " + gname + " != nil"
		isG := func(x ssa.Value) bool { return m.isGlobal(x, global) }
		otherAuth := func(lits []ir.NLit) bool {
			for _, l := range lits {
				if l.Kind == "cmp" && ir.IsNilConst(l.Y) {
					for _, g := range []*ssa.Global{m.gBasic, m.gToken} {
						if g != global && m.isGlobal(l.X, g) {
							return true
						}
					}
				}
			}
			return false
		}
		ph, isPhi := v.(*ssa.Phi)
		if !isPhi {
			if _, _, ok := wrapperCall(v, ctor); ok {
				r.Bad(cons, e.Pos(fn.Pos()), what+" is applied unconditionally (requests fail when it is not configured)")
			} else {
				r.Bad(cons, e.Pos(fn.Pos()), what+" is never applied to the chain")
			}
			return v
		}
		okWrap, okPlain := false, false
		for k, ed := range ph.Edges {
			lits := e.DCSPhiEdge(ph.Block(), k)
			if outer, cc, ok := wrapperCall(ed, ctor); ok {
				if HasNilCmp(lits, isG, true) && !otherAuth(lits) {
					okWrap = true
				}
				inner = outer.Call.Args[0]
				// configured secret arguments
				switch what {
				case "TokenAuth":
					r.Check(e.IsFieldRead(cc.Call.Args[1], nil, "Token") && m.isGlobal(pathRoot(e, cc.Call.Args[1]), m.gToken),
						"SetupGlobalMiddleware: TokenAuth gets authToken.Token", e.InstrPos(cc), "the token middleware is not given the configured token")
				case "BasicAuth":
					okCreds := false
					if mm, isMM := ir.Resolve(cc.Call.Args[1]).(*ssa.MakeMap); isMM {
						for _, ref := range *mm.Referrers() {
							if mu, isMU := ref.(*ssa.MapUpdate); isMU && e.IsFieldRead(mu.Key, nil, "Username") && e.IsFieldRead(mu.Value, nil, "Password") &&
								m.isGlobal(pathRoot(e, mu.Key), m.gBasic) && m.isGlobal(pathRoot(e, mu.Value), m.gBasic) {
								okCreds = true
							}
						}
					}
					r.Check(okCreds, "SetupGlobalMiddleware: BasicAuth gets {authBasic.Username: authBasic.Password}", e.InstrPos(cc), "the basic-auth middleware is not given the configured user and password")
				}
			} else {
				if HasNilCmp(lits, isG, false) {
					okPlain = true
				}
			}
		}
		r.Check(okWrap && okPlain, cons, e.InstrPos(ph.Block().Instrs[len(ph.Block().Instrs)-1]),
			what+" does not protect the chain exactly when "+gname+" is configured (missing, or made dependent on the other auth method: with both configured a request could skip one check and never meet the other)")
		return inner
	}
	x := chain
	y := peel(x, basic, m.gBasic, "authBasic", "BasicAuth")
	if y != nil {
		z := peel(y, tok, m.gToken, "authToken", "TokenAuth")
		_ = z
	}
	// the API handler parameter is used exactly once
	refs := *fn.Params[0].Referrers()
	uses := 0
	for _, ref := range refs {
		if _, isStore := ref.(*ssa.Store); isStore {
			continue
		}
		if _, isDbg := ref.(*ssa.DebugRef); isDbg {
			continue
		}
		uses++
	}
	r.Check(uses == 1, "SetupGlobalMiddleware: the API handler is used once (innermost)", e.Pos(fn.Pos()), sprintf("the raw API handler is referenced %d times: it may be reachable outside the authenticated chain", uses))
	// configureAPI returns setupGlobalMiddleware(api.Serve(…))
	cfg := e.FnQuiet("internal/frontend/gen/restapi", "configureAPI")
	sgm := e.FnQuiet("internal/frontend/gen/restapi", "setupGlobalMiddleware")
	if cfg == nil || sgm == nil {
		r.Unknown("restapi.configureAPI / setupGlobalMiddleware", "-", "not found")
		return
	}
	okCfg := false
	for _, b := range cfg.Blocks {
		for _, in := range b.Instrs {
			if rt, ok := in.(*ssa.Return); ok {
				if c, isC := ir.Resolve(RetVals(rt, 0)[0]).(*ssa.Call); isC && c.Call.StaticCallee() == sgm {
					if ic, isIC := ir.Resolve(c.Call.Args[0]).(*ssa.Call); isIC && strings.HasSuffix(ir.CalleeName(&ic.Call), "BlackdaggerAPI).Serve") {
						okCfg = true
					}
				}
			}
		}
	}
	r.Check(okCfg, "configureAPI: returns setupGlobalMiddleware(api.Serve(…))", e.Pos(cfg.Pos()), "the generated API handler is not wrapped by the global middleware")
	okS := false
	for _, ci := range ir.CallsIn(sgm, func(c *ssa.CallCommon) bool { return c.StaticCallee() == fn }) {
		if ir.Resolve(ci.Common().Args[0]) == ssa.Value(sgm.Params[0]) {
			okS = true
		}
	}
	r.Check(okS, "restapi.setupGlobalMiddleware: delegates to middleware.SetupGlobalMiddleware(handler)", e.Pos(sgm.Pos()), "the global middleware hook does not install the authenticated chain")
}

// routerOf: v is the prefix router applied to a chain - a call of the router
// function, or a router object (a handler type of the package whose ServeHTTP
// routes) built around it; returns the routing function and the chain value.
func (m *mwModel) routerOf(v ssa.Value) (*ssa.Function, ssa.Value) {
	v = ir.Resolve(v)
	if mi, ok := v.(*ssa.MakeInterface); ok {
		v = ir.Resolve(mi.X)
	}
	if c, ok := v.(*ssa.Call); ok && c.Call.StaticCallee() != nil && m.isRouter(c.Call.StaticCallee()) && len(c.Call.Args) > 0 {
		return c.Call.StaticCallee(), c.Call.Args[0]
	}
	if al, ok := v.(*ssa.Alloc); ok {
		nt, isN := al.Type().(*types.Pointer).Elem().(*types.Named)
		if !isN || nt.Obj().Pkg() != m.pkg.Pkg {
			return nil, nil
		}
		sel := types.NewMethodSet(al.Type()).Lookup(m.pkg.Pkg, "ServeHTTP")
		if sel == nil {
			return nil, nil
		}
		sh := m.pkg.Prog.MethodValue(sel)
		if sh == nil || !m.isRouter(sh) {
			return nil, nil
		}
		for _, ref := range *al.Referrers() {
			if fa, isF := ref.(*ssa.FieldAddr); isF && ir.NamedType(fa.Type().(*types.Pointer).Elem()) == "net/http.Handler" {
				for _, r2 := range *fa.Referrers() {
					if st, isS := r2.(*ssa.Store); isS && st.Addr == ssa.Value(fa) {
						return sh, st.Val
					}
				}
			}
		}
	}
	return nil, nil
}

// isRouter: f (with the helpers of the package it is made of) serves some
// requests with the package's default handler: the prefix router.
func (m *mwModel) isRouter(f *ssa.Function) bool {
	if rootFn(f).Package() != m.pkg {
		return false
	}
	for _, g := range m.e.withPkgHelpers(f) {
		if len(ir.CallsIn(g, func(c *ssa.CallCommon) bool {
			return c.IsInvoke() && c.Method.Name() == "ServeHTTP" && m.isGlobal(c.Value, m.gDefault)
		})) > 0 {
			return true
		}
	}
	return false
}

func pathRoot(e *Env, v ssa.Value) ssa.Value {
	p, ok := e.C.PathOf(v)
	if !ok {
		return v
	}
	return p.Root
}

// innermostHandler: the request handler a middleware constructor produces - the
// http.HandlerFunc closure (w, r) nested in it, or the ServeHTTP method of the
// handler type it allocates and returns.
func innermostHandler(f *ssa.Function) *ssa.Function {
	var best *ssa.Function
	for _, g := range ir.WithClosures(f) {
		if g != f && len(g.Params) == 2 && len(g.AnonFuncs) == 0 {
			best = g
		}
	}
	if best != nil {
		return best
	}
	if h, _ := handlerTypeOf(f); h != nil {
		return h
	}
	return nil
}

// handlerTypeOf: the ServeHTTP method of the struct the function (or a closure
// of it) allocates, and that struct's type.
func handlerTypeOf(f *ssa.Function) (*ssa.Function, types.Type) {
	for _, g := range ir.WithClosures(f) {
		for _, b := range g.Blocks {
			for _, in := range b.Instrs {
				al, ok := in.(*ssa.Alloc)
				if !ok {
					continue
				}
				nt, ok := al.Type().(*types.Pointer).Elem().(*types.Named)
				if !ok || nt.Obj().Exported() {
					continue
				}
				ms := types.NewMethodSet(al.Type())
				sel := ms.Lookup(nt.Obj().Pkg(), "ServeHTTP")
				if sel == nil {
					sel = types.NewMethodSet(nt).Lookup(nt.Obj().Pkg(), "ServeHTTP")
				}
				if sel == nil {
					continue
				}
				if m := f.Prog.MethodValue(sel); m != nil && m.Blocks != nil {
					return m, al.Type()
				}
			}
		}
	}
	return nil, nil
}

// c17RejectSites: the dual of pass-sites, for the half "a request carrying the
// configured credentials in standard form always passes". Every way of reaching
// a 401 answer in an auth closure must carry one of the licensed reasons for
// rejecting - the header could not be parsed (r.BasicAuth() !ok, fewer fields
// than needed), the presented field is empty, the user is not configured, or
// the constant-time comparison with the configured secret failed. Any other
// reason (a syntax filter on the presented secret, a length cap, ...) rejects
// some configured secret presented in standard form.
func c17RejectSites(e *Env, m *mwModel) {
	r := e.R
	r.Rule("C17.reject-sites", "RC", "every way to a 401 carries a licensed reason", 2)
	for _, ctor := range []struct {
		name string
		fn   *ssa.Function
	}{{"BasicAuth", m.basic}, {"TokenAuth", m.tok}} {
		h := innermostHandler(ctor.fn)
		if h == nil {
			continue
		}
		for _, ci := range m.rejectCalls(h) {
			alts, ok := m.expandAt(h, ci)
			if !ok {
				r.Unknown(ctor.name+": reasons for answering 401", e.InstrPos(ci), "reaching condition too large")
				continue
			}
			var bad []string
			for ai, lits := range alts {
				m.enter(ai)
				licensed := false
				for _, l := range lits {
					if c17LicensedReject(e, m, l) {
						licensed = true
					}
				}
				if !licensed {
					bad = append(bad, "{"+strings.Join(e.RenderN(lits), " ; ")+"}")
				}
			}
			m.leave()
			r.Check(len(bad) == 0, ctor.name+": 401 only for an unparsable header, an empty field, an unknown user or a failed comparison with the configured secret", e.InstrPos(ci),
				"a request is rejected for a reason that is not a mismatch with the configured credentials: some configured secret, presented in the standard form, is answered 401 (the handler is never reached)",
				"ways to this 401 without a licensed reason: "+strings.Join(bad, " | "))
		}
	}
}

func c17LicensedReject(e *Env, m *mwModel, l ir.NLit) bool {
	fromHeaderSplit := m.fromAuthHeader
	switch l.Kind {
	case "val":
		if l.Pol {
			return false
		}
		if ex, ok := ir.Resolve(l.V).(*ssa.Extract); ok {
			// the header has no second field: !found of strings.Cut(header, " ")
			if cc, isC := ex.Tuple.(*ssa.Call); isC && ir.IsCallTo(&cc.Call, "strings.Cut") && ex.Index == 2 && m.fromAuthHeader(cc.Call.Args[0]) {
				return true
			}
			// !ok of r.BasicAuth()
			if cc, isC := ex.Tuple.(*ssa.Call); isC && ir.IsCallTo(&cc.Call, "(*net/http.Request).BasicAuth") && ex.Index == 2 {
				return true
			}
			// user not configured: comma-ok map lookup false
			if lk, isL := ex.Tuple.(*ssa.Lookup); isL && lk.CommaOk && ex.Index == 1 {
				return true
			}
		}
	case "cmp":
		// ConstantTimeCompare(...) != 1
		if c, ok := ir.Resolve(l.X).(*ssa.Call); ok && ir.IsCallTo(&c.Call, "crypto/subtle.ConstantTimeCompare") {
			if k, isK := ir.ConstInt(l.Y); isK && ((l.Op == token.NEQ && k == 1) || (l.Op == token.EQL && k == 0)) {
				return true
			}
		}
		// len(fields of the header) < k
		if l.Op == token.LSS || l.Op == token.LEQ {
			if x, isLen := lenArg(l.X); isLen && fromHeaderSplit(x) {
				if _, isK := ir.ConstInt(l.Y); isK {
					return true
				}
			}
		}
		// len(header field) == 0
		if l.Op == token.EQL {
			if x, isLen := lenArg(l.X); isLen && fromHeaderSplit(x) {
				if k, isK := ir.ConstInt(l.Y); isK && k == 0 {
					return true
				}
			}
		}
		// a header field is empty
		if l.Op == token.EQL {
			if s, isS := ir.ConstString(l.Y); isS && s == "" && fromHeaderSplit(l.X) {
				return true
			}
		}
	}
	return false
}

func ctcEq1(lits []ir.NLit) *ssa.Call {
	for _, l := range lits {
		if l.Kind == "cmp" && l.Op == token.EQL {
			if k, ok := ir.ConstInt(l.Y); ok && k == 1 {
				if c, ok := ir.Resolve(l.X).(*ssa.Call); ok && ir.IsCallTo(&c.Call, "crypto/subtle.ConstantTimeCompare") {
					return c
				}
			}
		}
	}
	return nil
}

func stripBytes(v ssa.Value) ssa.Value {
	v = ir.Resolve(v)
	if cv, ok := v.(*ssa.Convert); ok {
		return ir.Resolve(cv.X)
	}
	return v
}

func c17PassSites(e *Env, m *mwModel) {
	r := e.R
	r.Rule("C17.pass-sites", "DCS", "every pass site is licensed", 4)
	basic, tok := m.basic, m.tok
	fail := func(h *ssa.Function) {
		// C17.failed-is-401 part: after a 401 answer no pass
		passes := passCalls(h)
		for _, ci := range m.rejectCalls(h) {
			bad, _ := ir.Bypass(ci, nil, ir.PathQuery{Bad: func(in ssa.Instruction) bool {
				for _, nc := range passes {
					if nc == in {
						return true
					}
				}
				return false
			}})
			r.Check(bad == nil, shortName(h)+": no pass after the 401 answer", e.InstrPos(ci), "the request is passed on after the 401 answer was written")
		}
	}
	isBasicAuthRes := func(v ssa.Value, idx int) bool {
		ex, isE := ir.Deep(v).(*ssa.Extract)
		if !isE || ex.Index != idx {
			return false
		}
		cc, isC := ex.Tuple.(*ssa.Call)
		return isC && ir.IsCallTo(&cc.Call, "(*net/http.Request).BasicAuth")
	}
	// ---- BasicAuth
	if h := innermostHandler(basic); h != nil {
		for _, nc := range passCalls(h) {
			pos := e.InstrPos(nc)
			alts, okA := m.expandAt(h, nc)
			if !okA {
				r.Unknown("BasicAuth: conditions of a pass site", pos, "reaching condition too large")
				continue
			}
			okAll, why := true, ""
			var factsBad []string
			nSkip, nCmp := 0, 0
			for ai, lits := range alts {
				m.enter(ai)
				if m.basicSkip(lits) {
					nSkip++
					continue
				}
				c := ctcEq1(lits)
				ok, w := c != nil, "the request is passed on without a successful constant-time comparison of the presented password with the configured one"
				if ok {
					a, b := stripBytes(c.Call.Args[0]), stripBytes(c.Call.Args[1])
					presented := func(v ssa.Value) bool { return isBasicAuthRes(v, 1) }
					configured := func(v ssa.Value) (bool, string) {
						v = ir.Deep(v)
						ex, isE := v.(*ssa.Extract)
						if isE {
							if lk, isL := ex.Tuple.(*ssa.Lookup); isL && lk.CommaOk && ex.Index == 0 {
								okTested := HasVal(lits, func(x ssa.Value) bool {
									e2, isE2 := ir.Resolve(x).(*ssa.Extract)
									return isE2 && e2.Tuple == ssa.Value(lk) && e2.Index == 1
								}, true)
								keyOK := isBasicAuthRes(lk.Index, 0)
								// the map: the constructor's credentials parameter
								mapOK := false
								if p := paramOf(lk.X, basic); p != nil {
									mapOK = true
								}
								if !okTested {
									return false, "the configured password is looked up for the presented user but the lookup's ok result is not required: an unconfigured user yields the empty password, which an empty presented password matches"
								}
								if !mapOK {
									return false, "the password is not looked up in the credentials the middleware was constructed with"
								}
								return keyOK, "the credential lookup is not keyed by the presented user"
							}
						}
						if lk, isL := v.(*ssa.Lookup); isL && !lk.CommaOk {
							return false, "the configured password is read with a plain map lookup: for an unconfigured user it is the empty string, which an empty presented password matches"
						}
						return false, "the second operand of the comparison is not the configured password: " + e.C.Render(v)
					}
					switch {
					case presented(a):
						ok, w = configured(b)
					case presented(b):
						ok, w = configured(a)
					default:
						ok, w = false, "neither operand of the comparison is the password presented in the request"
					}
					if ok && !HasVal(lits, func(x ssa.Value) bool { return isBasicAuthRes(x, 2) }, true) {
						ok, w = false, "the ok result of r.BasicAuth() is not required"
					}
				}
				if ok {
					nCmp++
				} else {
					okAll, why = false, w
					factsBad = append(factsBad, "{"+strings.Join(e.RenderN(lits), " ; ")+"}")
				}
			}
			m.leave()
			cons := "BasicAuth: final pass under ok ∧ user configured ∧ ConstantTimeCompare(pass, configured)==1"
			if okAll && nCmp == 0 && nSkip > 0 {
				cons = "BasicAuth: pass under the licensed skip (a token is configured and a Bearer header is presented)"
			}
			r.Check(okAll, cons, pos, why, "unlicensed ways to this pass: "+strings.Join(factsBad, " | "))
		}
		fail(h)
	} else {
		r.Unknown("BasicAuth: handler closure", e.Pos(basic.Pos()), "not found")
	}
	// ---- TokenAuth
	if h := innermostHandler(tok); h != nil {
		for _, nc := range passCalls(h) {
			pos := e.InstrPos(nc)
			alts, okA := m.expandAt(h, nc)
			if !okA {
				r.Unknown("TokenAuth: conditions of a pass site", pos, "reaching condition too large")
				continue
			}
			okAll, why := true, ""
			var factsBad []string
			nSkip, nCmp := 0, 0
			for ai, lits := range alts {
				m.enter(ai)
				if t := m.markerSkip(lits); t != "" {
					m.markerT = t
					nSkip++
					continue
				}
				c := ctcEq1(lits)
				ok, w := c != nil, "the request is passed on without a successful constant-time comparison of the presented token with the configured one"
				if ok {
					a, b := stripBytes(c.Call.Args[0]), stripBytes(c.Call.Args[1])
					isCfg := func(v ssa.Value) bool {
						// the configured token: the string parameter of the middleware constructor
						p := paramOf(v, tok)
						return p != nil && len(tok.Params) == 2 && p == tok.Params[1]
					}
					var pres ssa.Value
					switch {
					case isCfg(b) && m.fromAuthHeader(a):
						pres = a
					case isCfg(a) && m.fromAuthHeader(b):
						pres = b
					default:
						ok, w = false, "the comparison is not between the Authorization header's token and the configured token"
					}
					if ok {
						nonEmpty := false
						for _, l := range lits {
							if l.Kind == "cmp" && l.Op == token.NEQ && sameHeaderPart(e, l.X, pres) {
								if s, isS := ir.ConstString(l.Y); isS && s == "" {
									nonEmpty = true
								}
							}
						}
						if !nonEmpty {
							ok, w = false, "an empty presented token is not rejected before the comparison (an empty configured token would match)"
						}
					}
				}
				if ok {
					nCmp++
				} else {
					okAll, why = false, w
					factsBad = append(factsBad, "{"+strings.Join(e.RenderN(lits), " ; ")+"}")
				}
			}
			m.leave()
			cons := "TokenAuth: final pass under well-formed header ∧ token!=\"\" ∧ ConstantTimeCompare(token, configured)==1"
			if okAll && nCmp == 0 && nSkip > 0 {
				cons = "TokenAuth: pass under the licensed skip (the per-request authenticated marker)"
			}
			r.Check(okAll, cons, pos, why, "unlicensed ways to this pass: "+strings.Join(factsBad, " | "))
		}
		fail(h)
	} else {
		r.Unknown("TokenAuth: handler closure", e.Pos(tok.Pos()), "not found")
	}
	// failure writers answer 401: the reject sites of both closures exist
	r.Rule("C17.failed-is-401", "VF", "failed authentication is answered 401", 2)
	for _, ctor := range []struct {
		name string
		fn   *ssa.Function
	}{{"BasicAuth", basic}, {"TokenAuth", tok}} {
		h := innermostHandler(ctor.fn)
		if h == nil {
			continue
		}
		// every way through the closure ends in a pass or in a 401 answer
		passes := passCalls(h)
		rejects := m.rejectCalls(h)
		isEnd := func(in ssa.Instruction) bool {
			for _, x := range passes {
				if x == in {
					return true
				}
			}
			for _, x := range rejects {
				if x == in {
					return true
				}
			}
			return false
		}
		bad, _ := ir.Bypass(nil, h.Blocks[0], ir.PathQuery{Stop: isEnd, Bad: ir.IsReturn})
		r.Check(bad == nil && len(rejects) > 0, ctor.name+": a request that is not passed on is answered 401", e.Pos(h.Pos()), "a failed authentication is not answered with 401")
	}
}

// sameHeaderPart: both values read the same element of the same split header.
func sameHeaderPart(e *Env, a, b ssa.Value) bool {
	a, b = ir.Deep(a), ir.Deep(b)
	if a == b {
		return true
	}
	ua, ok1 := a.(*ssa.UnOp)
	ub, ok2 := b.(*ssa.UnOp)
	if !ok1 || !ok2 {
		return false
	}
	ia, ok1 := ua.X.(*ssa.IndexAddr)
	ib, ok2 := ub.X.(*ssa.IndexAddr)
	if !ok1 || !ok2 || ir.Deep(ia.X) != ir.Deep(ib.X) {
		return false
	}
	ka, ok1 := ir.ConstInt(ia.Index)
	kb, ok2 := ir.ConstInt(ib.Index)
	return ok1 && ok2 && ka == kb
}

// basicSkip: the conjunction licenses skipping basic auth - a token is
// configured (so a token check follows in the chain) and the request presents a
// Bearer Authorization header.
func (m *mwModel) basicSkip(lits []ir.NLit) bool {
	tokCfg := HasNilCmp(lits, func(x ssa.Value) bool { return m.isGlobal(x, m.gToken) }, true)
	bearer := false
	for _, l := range lits {
		if l.Kind == "cmp" && l.Op == token.EQL {
			if s, isS := ir.ConstString(l.Y); isS && s == "Bearer" && m.fromAuthHeader(l.X) {
				bearer = true
			}
		}
	}
	return tokCfg && bearer
}

// markerSkip: the conjunction says the request context carries the package's
// authenticated marker (a value of a private pointer type, obtained with a
// checked type assertion, with its flag set). Returns the marker's type.
func (m *mwModel) markerSkip(lits []ir.NLit) string {
	var asserted string
	var ta *ssa.TypeAssert
	for _, l := range lits {
		if l.Kind != "val" || !l.Pol {
			continue
		}
		ex, isE := ir.Resolve(l.V).(*ssa.Extract)
		if !isE || ex.Index != 1 {
			continue
		}
		t, isT := ex.Tuple.(*ssa.TypeAssert)
		if !isT || !t.CommaOk {
			continue
		}
		pt, isP := t.AssertedType.(*types.Pointer)
		if !isP {
			continue
		}
		nt, isN := pt.Elem().(*types.Named)
		if !isN || nt.Obj().Pkg() != m.pkg.Pkg || nt.Obj().Exported() {
			continue
		}
		// the asserted value comes from the request context
		if c, isC := ir.Resolve(t.X).(*ssa.Call); !isC || !c.Call.IsInvoke() || c.Call.Method.Name() != "Value" {
			continue
		}
		asserted, ta = t.AssertedType.String(), t
	}
	if ta == nil {
		return ""
	}
	// its boolean flag is required
	flag := HasVal(lits, func(x ssa.Value) bool {
		p, ok := m.e.C.PathOf(x)
		if !ok || len(p.Fields) != 1 {
			return false
		}
		ex, isE := ir.Resolve(p.Root).(*ssa.Extract)
		return isE && ex.Tuple == ssa.Value(ta) && ex.Index == 0
	}, true)
	if !flag {
		return ""
	}
	return asserted
}

func c17SkipSound(e *Env, m *mwModel) {
	r := e.R
	r.Rule("C17.skip-sound", "DCS+WMC", "skip predicates are sound", 2)
	// (a) basic auth is skipped only under the licensed predicate: judged at the
	// pass sites (C17.pass-sites); here: such a skip exists at most in BasicAuth, and
	// (b) the marker TokenAuth trusts is constructed only at BasicAuth's success site
	if m.markerT == "" {
		r.OK("TokenAuth: no skip on a per-request marker", e.Pos(m.tok.Pos()), "token auth never skips")
		return
	}
	n := 0
	okAll := true
	var where []string
	for _, f := range e.RepoFuncsSorted() {
		if rootFn(f).Package() != m.pkg {
			continue
		}
		for _, b := range f.Blocks {
			for _, in := range b.Instrs {
				al, isA := in.(*ssa.Alloc)
				if !isA || types.NewPointer(al.Type().(*types.Pointer).Elem()).String() != m.markerT {
					continue
				}
				n++
				// the function constructing the marker, lifted to where it is used
				sites := []ssa.Instruction{in}
				if f.Parent() == nil && rootFn(f) != m.basic && f != innermostHandler(m.basic) {
					sites = nil
					for _, cs := range e.StaticCallSites(f) {
						sites = append(sites, cs)
					}
					if len(sites) == 0 {
						okAll = false
					}
				}
				for _, site := range sites {
					where = append(where, e.InstrPos(site))
					h := site.Parent()
					if rootFn(h) != m.basic && h != innermostHandler(m.basic) {
						okAll = false
						continue
					}
					alts, ok := m.expandAt(h, site)
					if !ok {
						okAll = false
						continue
					}
					for ai, lits := range alts {
						m.enter(ai)
						if ctcEq1(lits) == nil {
							okAll = false
						}
					}
					m.leave()
				}
			}
		}
	}
	r.Check(okAll && n > 0, "withAuthenticated: called only at BasicAuth's success site", e.Pos(m.basic.Pos()),
		"the authenticated marker is installed somewhere other than after a successful basic-auth comparison", "marker constructed / installed at: "+strings.Join(where, ", "))
	// the marker's flag is set where it is constructed
	r.OK("isAuthenticated: true only for the marker type with its flag set", e.Pos(m.tok.Pos()), "marker type "+m.markerT)
}

func c17Routing(e *Env, m *mwModel) {
	r := e.R
	r.Rule("C17.routing", "DCS", "/api → authenticated chain, everything else → default handler", 2)
	// the router: what SetupGlobalMiddleware applies outermost
	var pc *ssa.Function
	for _, b := range m.setupGM.Blocks {
		for _, in := range b.Instrs {
			if rt, ok := in.(*ssa.Return); ok {
				if rf, _ := m.routerOf(RetVals(rt, 0)[0]); rf != nil {
					pc = rf
				}
			}
		}
	}
	if pc == nil {
		r.Unknown("prefixChecker: routing sites", e.Pos(m.setupGM.Pos()), "the outermost wrapper of the chain is not the prefix router")
		return
	}
	isAPI := func(lits []ir.NLit, pol bool) bool {
		return HasVal(lits, func(x ssa.Value) bool {
			c, ok := ir.Resolve(x).(*ssa.Call)
			if !ok || !ir.IsCallTo(&c.Call, "strings.HasPrefix") {
				return false
			}
			s, _ := ir.ConstString(c.Call.Args[1])
			return s == "/api"
		}, pol)
	}
	nNext, nDef := 0, 0
	for _, f := range e.withPkgHelpers(pc) {
		for _, ci := range passCalls(f) {
			nNext++
			r.Check(isAPI(e.DCS(ci), true), "prefixChecker: authenticated chain serves the /api prefix", e.InstrPos(ci),
				"the authenticated chain is not what serves the /api paths", e.FactsStr("dominating conditions: ", e.DCS(ci)))
		}
		for _, ci := range ir.CallsIn(f, func(c *ssa.CallCommon) bool {
			return c.IsInvoke() && c.Method.Name() == "ServeHTTP" && m.isGlobal(c.Value, m.gDefault)
		}) {
			nDef++
			r.Check(isAPI(e.DCS(ci), false), "prefixChecker: the unauthenticated default handler serves only non-/api paths", e.InstrPos(ci),
				"API paths can be served by the default (unauthenticated) handler", e.FactsStr("dominating conditions: ", e.DCS(ci)))
		}
	}
	if nNext == 0 || nDef == 0 {
		r.Unknown("prefixChecker: routing sites", e.Pos(pc.Pos()), sprintf("next calls=%d default calls=%d", nNext, nDef))
	}
	// the credentials are installed by Setup from the options
	setup := e.Fn(mwRel, "Setup")
	if setup != nil {
		ok, ok2 := false, false
		for _, b := range setup.Blocks {
			for _, in := range b.Instrs {
				if st, isS := in.(*ssa.Store); isS {
					if g, isG := st.Addr.(*ssa.Global); isG && g == m.gBasic && e.IsFieldRead(st.Val, nil, "AuthBasic") {
						ok = true
					}
					if g, isG := st.Addr.(*ssa.Global); isG && g == m.gToken && e.IsFieldRead(st.Val, nil, "AuthToken") {
						ok2 = true
					}
				}
			}
		}
		r.Check(ok && ok2, "middleware.Setup: authBasic/authToken taken from the options", e.Pos(setup.Pos()), "the configured credentials are not installed into the middleware's package state")
	}
}

// paramOf: v is (a captured copy of, or a helper's parameter bound to) a
// parameter of ctor; returns that parameter.
func paramOf(v ssa.Value, ctor *ssa.Function) *ssa.Parameter {
	for d := 0; d < 8; d++ {
		v = ir.Resolve(v)
		// a value kept in a field of the handler object the constructor builds
		if u, isU := v.(*ssa.UnOp); isU && u.Op == token.MUL {
			if fa, isF := u.X.(*ssa.FieldAddr); isF && hookEnv != nil {
				if vals := hookEnv.helperObjectFields(fa.X.Type(), fa.Field); len(vals) == 1 {
					v = vals[0]
					continue
				}
			}
		}
		p, ok := v.(*ssa.Parameter)
		if !ok {
			return nil
		}
		if p.Parent() == ctor {
			return p
		}
		if b := ir.Bound(p); b != nil {
			v = b
			continue
		}
		site := ir.UniqueSite(p.Parent())
		if site == nil {
			return nil
		}
		idx := -1
		for k, q := range p.Parent().Params {
			if q == p {
				idx = k
			}
		}
		if idx < 0 || idx >= len(site.Common().Args) {
			return nil
		}
		v = site.Common().Args[idx]
	}
	return nil
}
