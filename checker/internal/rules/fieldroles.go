package rules

import (
	"go/types"
	"strings"

	"golang.org/x/tools/go/ssa"

	"bdcheck/internal/ir"
)

// SchedFields names the Scheduler's unexported fields by what they hold. The
// exported Config (the package's API) says which field carries which setting:
// scheduler.New copies Config.X into some field, whatever it is called. The
// remaining ones are found by type (the run's last error: the only `error`
// field; the handler table: the map to *Node) or by use (the cancel flag: the
// field the exported Signal's call tree sets to a non-zero constant).
type SchedFields struct {
	Dry, MaxActive, Timeout, Delay string
	LastError, Handlers, Canceled  string
}

// schedOwners: the Scheduler and the structs of its package it embeds by value - a
// field of the scheduler may live in either (`sc.canceled` = `sc.runState.canceled`).
var schedOwners = map[string]bool{"Scheduler": true}

// isSchedOwner: t (or what it points to) is the Scheduler or a struct embedded in it.
func isSchedOwner(t types.Type) bool {
	n := ir.NamedType(derefT(t))
	if !strings.Contains(n, schedRel+".") {
		return false
	}
	return schedOwners[n[strings.LastIndex(n, ".")+1:]]
}

// AgentDry is the Agent's field that agent.New fills from Options.Dry.
func (e *Env) agentDryField() string {
	an := e.FnQuiet("internal/agent", "New")
	if an == nil {
		return "dry"
	}
	if f := fieldFilledFrom(e, an, "Agent", "Dry"); f != "" {
		return f
	}
	return "dry"
}

// fieldFilledFrom: in ctor, the field of a struct type named typ that is stored
// a value read from a field named src (of the constructor's configuration).
func fieldFilledFrom(e *Env, ctor *ssa.Function, typ, src string) string {
	for _, b := range ctor.Blocks {
		for _, in := range b.Instrs {
			st, ok := in.(*ssa.Store)
			if !ok {
				continue
			}
			fa, ok := st.Addr.(*ssa.FieldAddr)
			if !ok || typesName(derefT(fa.X.Type())) != typ {
				continue
			}
			val := st.Val
			for d := 0; d < 2; d++ { // `limit(cfg.MaxActiveRuns)`: a conversion to the field's own type
				if cv, isCv := val.(*ssa.Convert); isCv {
					val = cv.X
				}
			}
			if p, okp := e.C.PathOf(val); okp && len(p.Fields) > 0 && p.Fields[len(p.Fields)-1] == src {
				return ir.FieldNameOf(fa.X.Type(), fa.Field)
			}
		}
	}
	return ""
}

func derefT(t types.Type) types.Type {
	if p, ok := t.(*types.Pointer); ok {
		return p.Elem()
	}
	return t
}

func (e *Env) schedFields() *SchedFields {
	if e.sfields != nil {
		return e.sfields
	}
	f := &SchedFields{Dry: "dry", MaxActive: "maxActiveRuns", Timeout: "timeout", Delay: "delay", LastError: "lastError", Handlers: "handlers", Canceled: "canceled"}
	e.sfields = f
	sp := e.P.Pkg(schedRel)
	if sp == nil {
		return f
	}
	if newFn := e.FnQuiet(schedRel, "New"); newFn != nil {
		for cfg, dst := range map[string]*string{"Dry": &f.Dry, "MaxActiveRuns": &f.MaxActive, "Timeout": &f.Timeout, "Delay": &f.Delay} {
			if n := fieldFilledFrom(e, newFn, "Scheduler", cfg); n != "" {
				*dst = n
			}
		}
	}
	st := sp.Type("Scheduler")
	if st == nil {
		return f
	}
	str, ok := st.Type().Underlying().(*types.Struct)
	if !ok {
		return f
	}
	var errFields, handlerFields []string
	// the scheduler's own fields and those of the structs it embeds by value (`runState`)
	owners := map[string]bool{"Scheduler": true}
	defer func() { schedOwners = owners }()
	var fields []*types.Var
	for i := 0; i < str.NumFields(); i++ {
		fd := str.Field(i)
		fields = append(fields, fd)
		if es, isS := fd.Type().Underlying().(*types.Struct); isS && fd.Embedded() && fd.Pkg() == sp.Pkg {
			owners[typesName(fd.Type())] = true
			for j := 0; j < es.NumFields(); j++ {
				fields = append(fields, es.Field(j))
			}
		}
	}
	for _, fd := range fields {
		if ir.NamedType(fd.Type()) == "error" {
			errFields = append(errFields, fd.Name())
		}
		if mt, isM := fd.Type().Underlying().(*types.Map); isM {
			if pt, isP := mt.Elem().(*types.Pointer); isP && typesName(pt.Elem()) == "Node" {
				handlerFields = append(handlerFields, fd.Name())
			}
		}
	}
	if len(errFields) == 1 {
		f.LastError = errFields[0]
	}
	if len(handlerFields) == 1 {
		f.Handlers = handlerFields[0]
	}
	// the cancel flag: set to a non-zero constant (directly or through sync/atomic)
	// by the call tree of the exported Signal
	if sig := e.FnQuiet(schedRel, "(*Scheduler).Signal"); sig != nil {
		found := map[string]bool{}
		for _, g := range e.withPkgHelpers(sig) {
			for _, b := range g.Blocks {
				for _, in := range b.Instrs {
					var fa *ssa.FieldAddr
					var val ssa.Value
					switch x := in.(type) {
					case *ssa.Store:
						fa, _ = x.Addr.(*ssa.FieldAddr)
						val = x.Val
					case *ssa.Call:
						if strings.HasPrefix(ir.CalleeName(&x.Call), "sync/atomic.Store") || strings.HasPrefix(ir.CalleeName(&x.Call), "sync/atomic.CompareAndSwap") {
							fa, _ = x.Call.Args[0].(*ssa.FieldAddr)
							val = x.Call.Args[len(x.Call.Args)-1]
						}
						if strings.HasSuffix(ir.CalleeName(&x.Call), ").Store") && strings.Contains(ir.CalleeName(&x.Call), "sync/atomic.") && len(x.Call.Args) == 2 {
							fa, _ = x.Call.Args[0].(*ssa.FieldAddr)
							val = x.Call.Args[1]
						}
					}
					if fa == nil || !owners[typesName(derefT(fa.X.Type()))] {
						continue
					}
					if k, isC := ir.ConstInt(val); isC && k != 0 {
						found[ir.FieldNameOf(fa.X.Type(), fa.Field)] = true
					}
					if bv, isB := ir.ConstBool(val); isB && bv {
						found[ir.FieldNameOf(fa.X.Type(), fa.Field)] = true
					}
				}
			}
		}
		if len(found) == 1 {
			for n := range found {
				f.Canceled = n
			}
		}
	}
	canceledField = f.Canceled
	canceledField = f.Canceled
	return f
}

// canceledField is the cancel flag's name for the env-less predicate isCanceledCall.
var canceledField = "canceled"

// nodeSinkFields names the Node's buffered-writer fields by what they write to:
// "log" (the file opened from State.Log), "stdout" / "stderr" (the files opened
// from the step's Stdout / Stderr redirections). Read off the set-up code:
// W = bufio.NewWriter(F), F = open(… path derived from the respective setting).
func (e *Env) nodeSinkFields() map[string]string {
	if e.sinkFields != nil {
		return e.sinkFields
	}
	out := map[string]string{"log": "logWriter", "stdout": "stdoutWriter", "stderr": "stderrWriter"}
	e.sinkFields = out
	sp := e.P.Pkg(schedRel)
	if sp == nil {
		return out
	}
	isNode := func(t types.Type) bool { return strings.HasSuffix(ir.NamedType(t), schedRel+".Node") }
	kindOf := func(name string) string {
		switch {
		case strings.HasSuffix(name, "State.Log"):
			return "log"
		case strings.HasSuffix(name, "Step.Stdout"):
			return "stdout"
		case strings.HasSuffix(name, "Step.Stderr"):
			return "stderr"
		}
		return ""
	}
	for _, f := range e.RepoFuncsSorted() {
		if rootFn(f).Package() != sp {
			continue
		}
		for _, b := range f.Blocks {
			for _, in := range b.Instrs {
				st, ok := in.(*ssa.Store)
				if !ok {
					continue
				}
				wfa, ok := st.Addr.(*ssa.FieldAddr)
				if !ok || !isNode(wfa.X.Type()) {
					continue
				}
				c, ok := st.Val.(*ssa.Call)
				if !ok || !ir.IsCallTo(&c.Call, "bufio.NewWriter", "bufio.NewWriterSize") {
					continue
				}
				arg := c.Call.Args[0]
				if mi, isMI := arg.(*ssa.MakeInterface); isMI {
					arg = mi.X
				}
				// the file: a Node field filled in this function from an opening call,
				// or the opening call's result itself
				var opens []*ssa.Call
				if u, isU := arg.(*ssa.UnOp); isU {
					if ffa, isF := u.X.(*ssa.FieldAddr); isF && isNode(ffa.X.Type()) {
						for _, b2 := range f.Blocks {
							for _, in2 := range b2.Instrs {
								if s2, isS := in2.(*ssa.Store); isS {
									if a2, isA := s2.Addr.(*ssa.FieldAddr); isA && a2.Field == ffa.Field && isNode(a2.X.Type()) {
										v := ir.Resolve(s2.Val)
										if ex, isE := v.(*ssa.Extract); isE {
											v = ex.Tuple
										}
										if oc, isC := v.(*ssa.Call); isC {
											opens = append(opens, oc)
										}
									}
								}
							}
						}
					}
				}
				v := ir.Resolve(arg)
				if ex, isE := v.(*ssa.Extract); isE {
					v = ex.Tuple
				}
				if oc, isC := v.(*ssa.Call); isC {
					opens = append(opens, oc)
				}
				tr := &ir.Tracer{C: e.C, Through: ir.StringThrough}
				for _, oc := range opens {
					for _, a := range oc.Call.Args {
						for _, l := range tr.Trace(a) {
							if l.Kind == "field" {
								if k := kindOf(l.Name); k != "" {
									out[k] = ir.FieldNameOf(wfa.X.Type(), wfa.Field)
								}
							}
						}
					}
				}
			}
		}
	}
	return out
}

// helperObjectFields is the Tracer.Fields hook: the values stored anywhere in
// the repository into a field of an unexported struct type of the repository
// (a small helper object introduced to carry a few values around).
func (e *Env) helperObjectFields(recv types.Type, field int) []ssa.Value {
	t := derefT(recv)
	nt, ok := t.(*types.Named)
	if !ok || nt.Obj().Exported() || nt.Obj().Pkg() == nil {
		return nil
	}
	if _, isS := nt.Underlying().(*types.Struct); !isS {
		return nil
	}
	key := nt.String() + "#" + ir.FieldNameOf(recv, field)
	if e.fieldStoreIdx == nil {
		e.fieldStoreIdx = map[string][]ssa.Value{}
		for _, f := range e.RepoFuncsSorted() {
			for _, b := range f.Blocks {
				for _, in := range b.Instrs {
					st, ok := in.(*ssa.Store)
					if !ok {
						continue
					}
					fa, ok := st.Addr.(*ssa.FieldAddr)
					if !ok {
						continue
					}
					if n2, ok := derefT(fa.X.Type()).(*types.Named); ok && !n2.Obj().Exported() {
						k := n2.String() + "#" + ir.FieldNameOf(fa.X.Type(), fa.Field)
						e.fieldStoreIdx[k] = append(e.fieldStoreIdx[k], st.Val)
					}
				}
			}
		}
	}
	return e.fieldStoreIdx[key]
}
