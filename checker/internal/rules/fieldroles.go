package rules

import (
	"go/types"
	"strings"

	"golang.org/x/tools/go/ssa"

	"bdcheck/internal/ir"
)

// SchedFields names the Scheduler's unexported fields by what they hold. The
// exported Config (the package's API) says which field carries which setting:
// scheduler.New copies Config.X into some field, whatever it is called. The
// remaining ones are found by type (the run's last error: the only `error`
// field; the handler table: the map to *Node) or by use (the cancel flag: the
// field the exported Signal's call tree sets to a non-zero constant).
type SchedFields struct {
	Dry, MaxActive, Timeout, Delay string
	LastError, Handlers, Canceled  string
}

// AgentDry is the Agent's field that agent.New fills from Options.Dry.
func (e *Env) agentDryField() string {
	an := e.FnQuiet("internal/agent", "New")
	if an == nil {
		return "dry"
	}
	if f := fieldFilledFrom(e, an, "Agent", "Dry"); f != "" {
		return f
	}
	return "dry"
}

// fieldFilledFrom: in ctor, the field of a struct type named typ that is stored
// a value read from a field named src (of the constructor's configuration).
func fieldFilledFrom(e *Env, ctor *ssa.Function, typ, src string) string {
	for _, b := range ctor.Blocks {
		for _, in := range b.Instrs {
			st, ok := in.(*ssa.Store)
			if !ok {
				continue
			}
			fa, ok := st.Addr.(*ssa.FieldAddr)
			if !ok || typesName(derefT(fa.X.Type())) != typ {
				continue
			}
			if p, okp := e.C.PathOf(st.Val); okp && len(p.Fields) > 0 && p.Fields[len(p.Fields)-1] == src {
				return ir.FieldNameOf(fa.X.Type(), fa.Field)
			}
		}
	}
	return ""
}

func derefT(t types.Type) types.Type {
	if p, ok := t.(*types.Pointer); ok {
		return p.Elem()
	}
	return t
}

func (e *Env) schedFields() *SchedFields {
	if e.sfields != nil {
		return e.sfields
	}
	f := &SchedFields{Dry: "dry", MaxActive: "maxActiveRuns", Timeout: "timeout", Delay: "delay", LastError: "lastError", Handlers: "handlers", Canceled: "canceled"}
	e.sfields = f
	sp := e.P.Pkg(schedRel)
	if sp == nil {
		return f
	}
	if newFn := e.FnQuiet(schedRel, "New"); newFn != nil {
		for cfg, dst := range map[string]*string{"Dry": &f.Dry, "MaxActiveRuns": &f.MaxActive, "Timeout": &f.Timeout, "Delay": &f.Delay} {
			if n := fieldFilledFrom(e, newFn, "Scheduler", cfg); n != "" {
				*dst = n
			}
		}
	}
	st := sp.Type("Scheduler")
	if st == nil {
		return f
	}
	str, ok := st.Type().Underlying().(*types.Struct)
	if !ok {
		return f
	}
	var errFields, handlerFields []string
	for i := 0; i < str.NumFields(); i++ {
		fd := str.Field(i)
		if ir.NamedType(fd.Type()) == "error" {
			errFields = append(errFields, fd.Name())
		}
		if mt, isM := fd.Type().Underlying().(*types.Map); isM {
			if pt, isP := mt.Elem().(*types.Pointer); isP && typesName(pt.Elem()) == "Node" {
				handlerFields = append(handlerFields, fd.Name())
			}
		}
	}
	if len(errFields) == 1 {
		f.LastError = errFields[0]
	}
	if len(handlerFields) == 1 {
		f.Handlers = handlerFields[0]
	}
	// the cancel flag: set to a non-zero constant (directly or through sync/atomic)
	// by the call tree of the exported Signal
	if sig := e.FnQuiet(schedRel, "(*Scheduler).Signal"); sig != nil {
		found := map[string]bool{}
		for _, g := range e.withPkgHelpers(sig) {
			for _, b := range g.Blocks {
				for _, in := range b.Instrs {
					var fa *ssa.FieldAddr
					var val ssa.Value
					switch x := in.(type) {
					case *ssa.Store:
						fa, _ = x.Addr.(*ssa.FieldAddr)
						val = x.Val
					case *ssa.Call:
						if strings.HasPrefix(ir.CalleeName(&x.Call), "sync/atomic.Store") || strings.HasPrefix(ir.CalleeName(&x.Call), "sync/atomic.CompareAndSwap") {
							fa, _ = x.Call.Args[0].(*ssa.FieldAddr)
							val = x.Call.Args[len(x.Call.Args)-1]
						}
						if strings.HasSuffix(ir.CalleeName(&x.Call), ").Store") && strings.Contains(ir.CalleeName(&x.Call), "sync/atomic.") && len(x.Call.Args) == 2 {
							fa, _ = x.Call.Args[0].(*ssa.FieldAddr)
							val = x.Call.Args[1]
						}
					}
					if fa == nil || typesName(derefT(fa.X.Type())) != "Scheduler" {
						continue
					}
					if k, isC := ir.ConstInt(val); isC && k != 0 {
						found[ir.FieldNameOf(fa.X.Type(), fa.Field)] = true
					}
					if bv, isB := ir.ConstBool(val); isB && bv {
						found[ir.FieldNameOf(fa.X.Type(), fa.Field)] = true
					}
				}
			}
		}
		if len(found) == 1 {
			for n := range found {
				f.Canceled = n
			}
		}
	}
	canceledField = f.Canceled
	canceledField = f.Canceled
	return f
}

// canceledField is the cancel flag's name for the env-less predicate isCanceledCall.
var canceledField = "canceled"
