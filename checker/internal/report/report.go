// Package report collects obligations produced by the rules, matches them
// against the committed known-findings file and writes evidence / replay files.
package report

import (
	"encoding/json"
	"fmt"
	"os"
	"path/filepath"
	"sort"
	"strings"
	"time"
)

// State of an obligation.
type State string

const (
	Discharged State = "discharged"
	Violated   State = "violated"
	Undecided  State = "undecided"
)

// Obligation is one fact a rule had to establish about one construct.
type Obligation struct {
	Rule      string   `json:"rule"`      // e.g. C01.gate
	Construct string   `json:"construct"` // stable description, never a line number
	State     State    `json:"state"`
	Pos       string   `json:"pos,omitempty"` // file:line of the construct (diagnostic only, not part of the key)
	Detail    string   `json:"detail,omitempty"`
	Facts     []string `json:"facts,omitempty"` // what was found (dominating conditions, paths, writers ...)
	Known     string   `json:"known_finding,omitempty"`
}

// Key identifies an obligation independent of positions.
func (o *Obligation) Key() string { return o.Rule + " | " + o.Construct }

// Finding is one entry of known_findings.json.
type Finding struct {
	ID        string `json:"id"`
	Property  string `json:"property"`
	Rule      string `json:"rule"`
	Construct string `json:"construct"`
	What      string `json:"what"`
	Input     string `json:"input"`
	Status    string `json:"status"` // "known" | "fixed"
	Commit    string `json:"commit,omitempty"`
	Note      string `json:"note,omitempty"`
}

// RuleStat is the per-rule instance count (anti-vacuity).
type RuleStat struct {
	Rule         string `json:"rule"`
	Instances    int    `json:"instances"`
	MinInstances int    `json:"min_instances"`
	Primitive    string `json:"primitive"`
	Clause       string `json:"clause"`
}

// Report accumulates everything one run of one property produces.
type Report struct {
	Property string
	Tier     string
	Seed     int64
	Start    time.Time
	Obs      []*Obligation
	Rules    []*RuleStat
	cur      *RuleStat
	Info     map[string]any
	Assume   []string
	Decided  []string
	NotDec   []string
}

func New(prop, tier string, seed int64) *Report {
	return &Report{Property: prop, Tier: tier, Seed: seed, Start: time.Now(), Info: map[string]any{}}
}

// Rule starts a rule; subsequent obligations belong to it.
func (r *Report) Rule(id, primitive, clause string, min int) {
	r.cur = &RuleStat{Rule: id, MinInstances: min, Primitive: primitive, Clause: clause}
	r.Rules = append(r.Rules, r.cur)
}

func (r *Report) add(st State, construct, pos, detail string, facts []string) *Obligation {
	if r.cur == nil {
		// an obligation recorded before the first rule was declared (an anchor that
		// could not be resolved): it belongs to the anchor resolution
		r.Rule(r.Property+".anchors", "anchor resolution", "anchors of the property's rules", 0)
	}
	o := &Obligation{Rule: r.cur.Rule, Construct: construct, State: st, Pos: pos, Detail: detail, Facts: facts}
	r.Obs = append(r.Obs, o)
	r.cur.Instances++
	return o
}

func (r *Report) OK(construct, pos, detail string, facts ...string) {
	r.add(Discharged, construct, pos, detail, facts)
}
func (r *Report) Bad(construct, pos, detail string, facts ...string) {
	r.add(Violated, construct, pos, detail, facts)
}
func (r *Report) Unknown(construct, pos, detail string, facts ...string) {
	r.add(Undecided, construct, pos, detail, facts)
}

// Check adds a discharged or violated obligation depending on ok.
func (r *Report) Check(ok bool, construct, pos, detail string, facts ...string) bool {
	if ok {
		r.OK(construct, pos, detail, facts...)
	} else {
		r.Bad(construct, pos, detail, facts...)
	}
	return ok
}

// LoadFindings reads the committed known-findings file (never written at run time).
func LoadFindings(path string) ([]Finding, error) {
	b, err := os.ReadFile(path)
	if err != nil {
		if os.IsNotExist(err) {
			return nil, nil
		}
		return nil, err
	}
	var f struct {
		Findings []Finding `json:"findings"`
	}
	if err := json.Unmarshal(b, &f); err != nil {
		return nil, fmt.Errorf("%s: %w", path, err)
	}
	return f.Findings, nil
}

// Result of finishing a report.
type Result struct {
	Violations int
	Known      int
	Lines      []string
}

// Finish applies anti-vacuity, matches known findings, writes evidence and (on
// violation) the replay file, and returns the lines to print.
func (r *Report) Finish(findings []Finding, evidencePath, outDir string, extra map[string]any) (*Result, error) {
	// anti-vacuity: a rule that matched fewer sites than its minimum fails.
	for _, rs := range r.Rules {
		if rs.Instances < rs.MinInstances {
			r.Obs = append(r.Obs, &Obligation{Rule: rs.Rule, Construct: "anti-vacuity", State: Undecided,
				Detail: fmt.Sprintf("rule matched %d site(s), needs at least %d: the anchor was not found or the rule no longer recognises the construct", rs.Instances, rs.MinInstances)})
		}
	}
	known := map[string]*Finding{}
	for i := range findings {
		f := &findings[i]
		if f.Property == r.Property && f.Status == "known" {
			known[f.Rule+" | "+f.Construct] = f
		}
	}
	res := &Result{}
	var bad []*Obligation
	discharged := 0
	distinct := map[string]bool{}
	for _, o := range r.Obs {
		distinct[o.Key()] = true
		switch o.State {
		case Discharged:
			discharged++
		default:
			if f, ok := known[o.Key()]; ok && o.State == Violated {
				o.Known = f.ID
				res.Known++
				res.Lines = append(res.Lines, fmt.Sprintf("KNOWN-FINDING: property=%s %s %s [%s] at %s: %s", r.Property, f.ID, o.Rule, o.Construct, o.Pos, f.What))
			} else {
				bad = append(bad, o)
			}
		}
	}
	res.Violations = len(bad)
	wall := time.Since(r.Start).Seconds()

	samples := []any{}
	for i, o := range r.Obs {
		if i < 400 {
			samples = append(samples, o)
		}
	}
	cov := map[string]any{
		"explanation": "Static analysis of /repo's current sources (go/packages type-checked program, go/ssa, call graph). " +
			"Decided clauses (each a necessary structural condition of the property, NOT the behaviour itself): " + strings.Join(r.Decided, " || ") +
			". NOT decided by this check: " + strings.Join(r.NotDec, " || "),
		"obligations":         len(r.Obs),
		"discharged":          discharged,
		"known_findings":      res.Known,
		"evaluations":         len(r.Obs),
		"distinct_nontrivial": len(distinct),
		"rule": "one evaluation = one obligation (rule instance applied to one resolved construct of the current tree); " +
			"distinct = distinct rule+construct keys; every counted obligation examined a real site (rules that match fewer sites than min_instances fail)",
		"samples":    samples,
		"rules":      r.Rules,
		"exhaustive": false,
	}
	for k, v := range r.Info {
		cov[k] = v
	}
	for k, v := range extra {
		cov[k] = v
	}
	assume := r.Assume
	if assume == nil {
		assume = []string{}
	}
	assume = append(assume, "go/packages, go/types, go/ssa of golang.org/x/tools v0.29.0 and the checker's own dominance / reachability / slicing code are correct")
	ev := map[string]any{
		"property_id": r.Property,
		"tier":        r.Tier,
		"seed":        r.Seed,
		"level":       "other",
		"coverage":    cov,
		"assumptions": assume,
		"wall_s":      wall,
		"violations":  res.Violations,
	}
	if evidencePath != "" {
		if err := os.MkdirAll(filepath.Dir(evidencePath), 0o755); err != nil {
			return nil, err
		}
		b, _ := json.MarshalIndent(ev, "", " ")
		if err := os.WriteFile(evidencePath, append(b, '\n'), 0o644); err != nil {
			return nil, err
		}
	}
	sort.SliceStable(bad, func(i, j int) bool { return bad[i].Key() < bad[j].Key() })
	if len(bad) > 0 {
		if err := os.MkdirAll(outDir, 0o755); err != nil {
			return nil, err
		}
		replay := filepath.Join(outDir, fmt.Sprintf("%s.%s.json", r.Property, r.Tier))
		b, _ := json.MarshalIndent(map[string]any{"property": r.Property, "tier": r.Tier, "failed": bad}, "", " ")
		if err := os.WriteFile(replay, append(b, '\n'), 0o644); err != nil {
			return nil, err
		}
		for _, o := range bad {
			res.Lines = append(res.Lines, fmt.Sprintf("%s: %s %s [%s]: %s", o.Pos, strings.ToUpper(string(o.State)), o.Rule, o.Construct, o.Detail))
			for _, f := range o.Facts {
				res.Lines = append(res.Lines, "      "+f)
			}
		}
		res.Lines = append(res.Lines, fmt.Sprintf("VIOLATION property=%s replay=%s", r.Property, replay))
	}
	return res, nil
}
